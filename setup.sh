#!/bin/bash
# builds the framework offline from files on disk (harness crate, linked against /repo's working tree with hooks on)
set -e
cd /verif/mc
export CARGO_NET_OFFLINE=true
mkdir -p /verif/target
CARGO_TARGET_DIR=/verif/target/a cargo build --release --offline
CARGO_TARGET_DIR=/verif/target/b cargo build --release --offline --no-default-features
cd /repo && RUSTFLAGS="--cfg stylua_verif" CARGO_TARGET_DIR=/verif/target/cli cargo build --release --offline --features luau,lua54,luajit
