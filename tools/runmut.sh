#!/bin/bash
# usage: runmut.sh <patch.diff> <tier> <prop> [<prop>...]   -- apply a seeded change to /repo, run checks, undo it
set -u
PATCH=$1; TIER=$2; shift 2
cd /repo
if [ -n "$(git status --porcelain --untracked-files=no)" ]; then echo "runmut: /repo not clean"; exit 3; fi
[ -f "${PATCH%patch.diff}patch.rebased.diff" ] && PATCH="${PATCH%patch.diff}patch.rebased.diff"
if ! git apply --check "$PATCH" 2>/dev/null; then
  if ! patch -p1 --dry-run -F3 -s < "$PATCH" >/dev/null 2>&1; then echo "runmut: patch does not apply: $PATCH"; exit 4; fi
  patch -p1 -F3 -s --no-backup-if-mismatch < "$PATCH" >/dev/null
else git apply "$PATCH"; fi
trap 'git -C /repo checkout -- . ' EXIT
for P in "$@"; do
  out=$(cd /verif && ./check $P $TIER 2>/tmp/runmut.err); rc=$?
  nv=$(echo "$out" | grep -c '^VIOLATION')
  echo "RESULT patch=$(basename $(dirname $PATCH)) prop=$P tier=$TIER exit=$rc violations=$nv"
  echo "$out" | grep '^VIOLATION' | head -3
  grep -E "^\s+\[" /tmp/runmut.err | head -3
done
