#!/usr/bin/env python3
"""Writes the `fixed:` lines (repaired genuine defects) into known_findings/<ID>.json. Findings are left untouched."""
import json, subprocess, os
log=subprocess.run(['git','-C','/repo','log','--format=%h %s'],capture_output=True,text=True).stdout.splitlines()
def h(sub):
    for l in log:
        if sub in l: return l.split()[0]
    raise SystemExit('no commit for '+sub)
F=[
 ("keep the expression context when dropping", ['C02','C05'], "`((-x)) ^ y` -> `-x ^ y`, `#((x :: T))` -> `#x :: T`: context lost when dropping redundant outer parentheses"),
 ("derive operand contexts from the operator", ['C02','C05'], "hanging path: `(-a) ^ b + c + d` -> `-a ^ b ...`, `a + (x :: T)` -> `a + x :: T` when the expression hangs"),
 ("keep `-(-x)` parenthesised", ['C01','C02','C03','C05'], "hanging path: `f(-(-a))` at a narrow width -> `--a` (operand became a comment)"),
 ("do not duplicate a comment that trails", ['C03'], "`a, b = b --[[c]] , a` / `return a --[[c]] , b`: comment printed twice when the list is hung"),
 ("keep comments attached to redundant parentheses", ['C03'], "`local x = ( --[[c]] a)`, `(a --[[c]] )`: comment lost with the removed parentheses"),
 ("do not drop comments when removing parentheses around a condition", ['C03'], "`if ( --[[c]] x) then`: comment lost"),
 ("keep call parentheses that carry a comment", ['C03'], "call_parentheses=None: `f( --[[c]] \"s\")` -> `f \"s\"`, comment lost"),
 ("keep parentheses around a Luau type", ['C03'], "`type T = ( --[[c]] A)?`: comment lost"),
 ("also keep call parentheses when a comment precedes", ['C03'], "call_parentheses=None: comment on its own line between callee and `(` lost"),
 ("leave ignored and out-of-range statements untouched", ['C08','C09','C02','C03'], "ignored / out-of-range statements lost their `;`; `local x = 1; -- c` + `(f)()` lost the line break after the comment"),
 ("ignore start` / `end` regions when sorting requires", ['C08','C12'], "sort_requires sorted a require group inside an `ignore start/end` region"),
 ("keep a comment attached to the require that sort_requires moves", ['C12','C03'], "`--[[c]] local A = require(\"A\")` sorted to the front lost its comment"),
 ("omit call parentheses around a redundantly parenthesised", ['C11','C06'], "call_parentheses=None: `f((\"x\"))` -> `f(\"x\")`, only the second run gave `f \"x\"`"),
 ("report every inserted / deleted line in the JSON diff", ['C18'], "JSON mismatch for a multi-line insertion carried only the first inserted line"),
 ("let command line options override .editorconfig", ['C15'], "`--indent-width 7` ignored when .editorconfig sets indent_size"),
 ("exit with status 2 when a file fails to parse under --output-format=json", ['C13'], "`--check --output-format=json broken.lua` exited 0"),
 ("update the exit code atomically", ['C13','C19'], "load(0) . logger store 2 . store 1 -> exit status 1 although an error was reported"),
 ("resolve `..` in a file path before searching", ['C15'], "`stylua dir/../f.lua` / `../o.lua` used the configuration (and .editorconfig) of a directory the file does not live in"),
 ("process a file only once when it is reachable", ['C16'], "`stylua --check . a.lua ./a.lua` processed a.lua several times"),
 ("only remember a file as seen once it has been accepted", ['C16'], "follow-up: `stylua . c.txt` must still format the explicitly named c.txt"),
 ("apply --glob to explicitly named files when --respect-ignores", ['C16'], "`-g '**/*.txt' --respect-ignores -- a.lua` formatted a.lua"),
 ("do not panic when collapsing a function whose body is a single", ['C07'], "collapse_simple_statement FunctionOnly/Always + `function() goto l end` (Lua 5.2+): unreachable!() panic"),
 ("keep the space inside an index whose bracket string is wrapped", ['C01'], "`t[([[x]])]` -> `t[[[x]]]` (does not parse)"),
 ("keep the space after `[` when an index expression starts with a bracket string", ['C01'], "`t[ [[a]] .. b ]` -> `t[[[a]] .. b]` (does not parse)"),
 ("keep the semicolon after a compound assignment", ['C02','C01'], "Luau `x += y; (f)()` lost its `;` and became one statement `x += y(f)()`"),
 ("set the error exit code where the error is logged", ['C13', 'C17'], "`STYLUA_LOG=stylua=off stylua --check missing.lua` (any error, any mode) exited 0: the exit code was a side effect of the log formatter, which is not called for a filtered message"),
 ("do not panic in the output verifier on number literals", ['C07'], "format_code(.., OutputVerification::Full) / --verify: `0xFFFFFFFFFFFFFFFFFF`, `0x1p4`, `0x.8`, LuaJIT `2i`: unreachable!() panic in verify_ast::visit_number"),
 ("keep the space inside a Luau type table indexer whose key is a bracket string", ['C01'], "Luau `type T = { [ [[x]] ]: number }` -> `{ [[[x]]]: number }` (does not parse)"),
 ("strip leading blank lines of the first statement of a block also when formatting a range", ['C09'], "`local p = 1\ndo\n\n\tlocal x = 1\nend` with a range that starts after byte 0 and contains the whole `do` statement: the blank line after `do` survives although the whole-file run removes it (the in-range test was repeated on the formatted statement, whose tokens have no positions)"),
 ("do not panic under --respect-ignores for a path outside", ['C16','C17'], "`--respect-ignores /abs/path/outside/cwd/x.lua` (also as --stdin-filepath) with a .styluaignore in the working directory: panic in the ignore matcher, exit 101"),
 ("do not let --glob bypass .styluaignore", ['C16'], "`-g '**/*.lua' .` formatted hidden files and files excluded by .styluaignore"),
 ("accept call_parentheses = Input in .editorconfig", ['C20'], "`.editorconfig` with `call_parentheses = Input`: silently ignored (the default `Always` applied) although stylua.toml and --call-parentheses accept the value"),
 ("keep a space after the access modifier of a Luau array type", ['C02'], "Luau `type T = { read number }` -> `{ readnumber }` (another type); on a line of its own the indentation went between modifier and type"),
 ("keep the parentheses of a generic type pack", ['C01'], "Luau `type T<U... = (string)> = {}` -> `type T<U... = string> = {}` (does not parse)"),
]
by={}
for sub,props,what in F:
    c=h(sub)
    for p in props: by.setdefault(p,[]).append("fixed: property=%s %s %s"%(p,c,what))
for p in ["C%02d"%i for i in range(1,21)]:
    path='/verif/known_findings/%s.json'%p
    try: j=json.load(open(path))
    except FileNotFoundError: j={"property":p,"findings":[]}
    j['fixed']=by.get(p,[])
    json.dump(j,open(path,'w'),indent=0)
    print(p,len(j['fixed']),'fixed;',[(f['id'],len(f.get('instances',{}))) for f in j['findings']])
