import json,sys
j=json.load(open(sys.argv[1])); n=int(sys.argv[2]) if len(sys.argv)>2 else 4
for g in j['groups']:
    print('==',g['group'],g['count'])
    seen=set()
    for e in g['examples'][:n]:
        if e['program'] in seen: continue
        seen.add(e['program'])
        print('   IN ',repr(e['program']),'|',e['config'].replace('syn=All le=Unix it=Tabs iw=4 qs=AutoPreferDouble ','').replace(' sort=false safn=Never',''),'w=',e['width'],'x',e['widths_failing'], e.get('range'))
        print('   OUT',repr(e['output'])); print('      ',e['detail'][:160])
