#!/usr/bin/env python3
"""Copies the verified seeded changes from the staging area into /verif/seeded/<id>/ and writes meta.json."""
import json, os, shutil, re
STAGE='/tmp/seed/stage'
INFO = {
 # id: (property, what it needs in order to manifest, checks that report it (tier), notes)
 'C01-A': ('C01', 'collapse_simple_statement = ConditionalOnly/Always, an `if` guard with a `--` comment after `then`, collapsed line fits the width', ['C01 quick', 'C03 quick'], ''),
 'C01-B': ('C01', '`repeat ... until e;` directly followed by a statement whose target starts with `(`', ['C01 quick', 'C02 quick'], ''),
 'C02-A': ('C02', 'a `--` comment after a non-last suffix of a call/index chain whose next suffix is an index', ['C02 quick'], ''),
 'C02-B': ('C02', '`repeat ... until e;` directly followed by a call statement starting with `(`', ['C02 quick'], ''),
 'C03-A': ('C03', 'a comment on its own line between `return`/`break` and its `;`', ['C03 quick'], 'missed at first: needed the own-line comment kinds (5, 6) and catalogue statements that carry `;`'),
 'C03-B': ('C03', 'collapse_simple_statement on, `--` comment after `then`, collapsed line fits', ['C03 quick', 'C01 quick'], 'C03 reports it since the census also runs on unparseable output'),
 'C04-A': ('C04', 'a `\\`+CRLF line continuation inside a quoted string (CRLF file)', ['C04 quick', 'C01 quick'], 'missed by C04 at first: literal oracle now also judges unparseable output (literal-destroyed)'),
 'C04-B': ('C04', 'a hexadecimal float whose last digit before `.` is a-f (or `1_.5` in Luau)', ['C04 quick'], ''),
 'C05-A': ('C05', '`(#t) ^ 2`, `(not x) ^ 2`: a parenthesised unary other than minus on the left of `^`', ['C05 quick'], ''),
 'C05-B': ('C05', '`(-a) ^ b + c + d` at the widths where the chain hangs but `(-a) ^ b` stays inline (hanging path only)', ['C05 quick'], 'needed the unary-chain family (added after this change was seen)'),
 'C06-A': ('C06', 'single-line table without a space before `}` whose formatted line lands exactly on the column width', ['C06 quick'], ''),
 'C06-B': ('C06', 'line_endings = Windows and a multi-line `[[...]]` string or block comment, second pass', ['C06 quick'], 'needed multi-line tokens in the statement catalogue'),
 'C07-A': ('C07', 'call statements taking a callback whose body again contains such a call, ~20 levels deep (exponential time)', ['C07 quick'], 'F-DEEP kind callback-stmt: deep-time'),
 'C07-B': ('C07', 'a parenthesised prefix as FIRST statement of a block whose first line exceeds the column width', ['C07 quick'], 'panic at every narrow width'),
 'C08-A': ('C08', '`-- stylua: ignore start` / `end` attached to the LAST statement of a block (return/break)', ['C08 quick'], 'patch rebased onto the format_block fix'),
 'C08-B': ('C08', 'single `-- stylua: ignore` in a CRLF file or with trailing blanks after the directive', ['C08 quick'], ''),
 'C09old-A': ('C09', 'blank lines before an out-of-range sole `return` of a block', [], 'DEAD on the current tree: the guard it removes became redundant through the format_block fix (87c4bbb) and was itself removed by fix e7b14c8, so the patch no longer applies; kept for the record'),
 'C09old-B': ('C09', 'sort_requires + a range with an unsorted require group outside the range', ['C09 quick'], 'patch rebased onto the sort_requires fix; needed F-REQ with sort on in the C09 plan'),
 'C10-A': ('C10', 'CRLF input, one-item-per-line parenthesised list, own-line comment before a comma', ['C10 quick'], ''),
 'C10-B': ('C10', 'file ending in a comment followed by blank lines', ['C10 quick'], ''),
 'C11-A': ('C11', 'call_parentheses None/NoSingleString, a parenthesis-less string call followed by `.x` / `:m()`', ['C11 quick'], 'caught after adopting the documented reading of "unless an index or method call follows" (parentheses are there)'),
 'C11-B': ('C11', 'AutoPrefer*, a string containing both quote kinds in unequal numbers, preferred quote more frequent', ['C11 quick'], ''),
 'C12-A': ('C12', 'a same-line `--[[ stylua: ignore ]]` on a non-first member of a require group', ['C12 quick'], 'patch rebased; needed same-line directives in F-REQ'),
 'C12-B': ('C12', 'the same NAME twice in one group with different spacing after the name (stability)', ['C12 quick'], 'needed a duplicate name with different spacing in F-REQ'),
 'C13-A': ('C13', '--check, an error logged before the first diff reaches the output thread', ['C13 quick', 'C19 quick'], 'patch rebased onto the atomic-max fix'),
 'C13-B': ('C13', '--check --output-format=unified on a file where EVERY line changes', ['C13 quick', 'C18 quick'], ''),
 'C14-A': ('C14', '--verify, a file failing with an AST difference, no other error in the run', ['C14 quick'], ''),
 'C14-B': ('C14', 'a selected file containing an invalid UTF-8 byte that also needs reformatting', ['C14 quick'], ''),
 'C15-A': ('C15', 'no stylua.toml, >= 2 files in one invocation with different .editorconfig sections', ['C15 quick'], 'patch rebased; needed the per-file-section family'),
 'C15-B': ('C15', '--config-path + a CLI format option + stdin', ['C15 quick'], ''),
 'C16-A': ('C16', '--respect-ignores, no --glob, an explicitly named file not matching the default glob', ['C16 quick'], 'patch rebased'),
 'C16-B': ('C16', 'arguments that overlap through a directory (`src src/a.lua`, `src src`)', ['C16 quick'], 'patch rebased'),
 'C17-A': ('C17', 'pass-through (ignored + --respect-ignores) with a last line >= 1024 bytes and no final newline', ['C17 quick'], 'needed the long-last-line input'),
 'C17-B': ('C17', '`--search-parent-directories -` from a sub-directory whose ancestor holds stylua.toml', ['C15 quick', 'C17 quick'], 'C17 needed the run-from-sub-directory variant'),
 'C18-A': ('C18', 'unified format, file differing only in line terminators (CRLF / missing final newline)', ['C18 quick'], ''),
 'C18-B': ('C18', 'JSON format, a pure-deletion hunk after an earlier hunk that changed the line count', ['C18 quick'], ''),
 'C19-A': ('C19', 'a diff recorded before a later error is logged (compare_exchange(0,2) in the logger)', ['C19 quick', 'C13 quick'], 'needs 1 preemption-free but specific order: result of the unformatted file first'),
 'C19-B': ('C19', 'an error logged before the first diff (non-monotone store)', ['C19 quick', 'C13 quick'], ''),
 'C20-A': ('C20', '.editorconfig whose only StyLua key is space_after_function_names', ['C20 quick'], ''),
 'C20-B': ('C20', 'an unknown key inside the [sort_requires] table of stylua.toml', ['C20 quick'], ''),
 'C09-A': ('C09', 'a range, and an out-of-range LAST statement (return/break) written with a semicolon', ['C09 quick'], 'second round, on the fixed tree'),
 'C09-B': ('C09', 'sort_requires + a range with a require group partly outside the range', ['C09 quick'], 'second round, on the fixed tree'),
 'C01r2-A': ('C01', 'a long-bracket string of level >= 1 used directly as a table key or index (`{ [ [=[k]=] ] = v }`)', ['C01 quick'], 'round 2 (on the repaired tree)'),
 'C01r2-B': ('C01', 'Luau, a union type wide enough to hang whose LAST member is a parenthesised intersection', ['C01 quick'], 'round 2; missed at first: needed the F-TYPE family (type declarations x all widths)'),
 'C02r2-A': ('C02', 'redundant outer parentheses around an operand whose inner parentheses are required, at widths where the expression hangs', ['C02 quick', 'C05 quick'], 'round 2'),
 'C02r2-B': ('C02', 'Luau, a hung union type whose FIRST member is a parenthesised function type / optional', ['C02 quick'], 'round 2; F-TYPE'),
 'C03r2-A': ('C03', 'a comment on its own line between `.`/`:` and the name that follows', ['C03 quick'], 'round 2'),
 'C03r2-B': ('C03', 'Luau, a union/intersection whose non-first member is a generic function type preceded by a comment', ['C03 quick'], 'round 2; F-TRIVIA over the Luau type statements'),
 'C05r2-A': ('C05', 'redundant parentheses around a parenthesised unary/exponent operand on the hanging path', ['C05 quick'], 'round 2'),
 'C05r2-B': ('C05', 'Luau, a parenthesised if-expression as operand of a unary operator or left of a binary operator', ['C05 quick'], 'round 2'),
 'C06r2-A': ('C06', '`while` with a condition whose source is longer than its formatted text, formatted header landing near the column width', ['C06 quick'], 'round 2; needed conditions with removable parentheses in the catalogue'),
 'C06r2-B': ('C06', 'a comment before `else`/`elseif` inside a function that is itself an argument / table field (extra indent)', ['C06 quick'], 'round 2; needed the F-NEST enclosure subset in the quick tier'),
 'C06r2-C': ('C06', 'sort_requires on, a require statement spanning several lines in the input that collapses to one', ['C06 quick', 'C12 quick'], 'round 2; needed multi-line requires in F-REQ'),
 'C08r2-A': ('C08', 'sort_requires on, `-- stylua: ignore start` on a require, a LATER require group (after a blank line) still inside the region', ['C08 quick', 'C12 quick'], 'round 2; missed by C08 at first (C12 reported it): needed the regions-spanning-several-groups plan'),
 'C08r2-B': ('C08', 'a formatting range lying inside a statement that carries `-- stylua: ignore` and has a nested block', ['C08 quick'], 'round 2; missed at first: needed ignored compound statements x every pair of range points'),
 'C10r2-A': ('C10', 'CRLF input, a multi-line table, a `--` comment after a field value that has no comma behind it', ['C10 quick'], 'round 2; missed at first: the quick tier now renders every single-line-comment program in CRLF'),
 'C10r2-B': ('C10', 'a shebang line ending in CRLF', ['C10 quick'], 'round 2'),
 'C11r2-A': ('C11', 'call_parentheses = Input, a parenthesis-less call followed by `.name` / `[e]` / `:m()`', ['C11 quick'], 'round 2'),
 'C11r2-B': ('C11', 'space_after_function_names = Calls/Always and a call whose parentheses are added by the formatter', ['C11 quick'], 'round 2'),
 'C04r3-A': ('C04', 'line_endings = Windows and a multi-line long-bracket string whose line breaks are already CRLF (becomes CR CR LF)', ['C04 quick'], 'round 3'),
 'C04r3-B': ('C04', 'a long-bracket string of level >= 1 as index / table key: `t[ [=[x]=] ]` becomes the call `t[[=[x]=]]`', ['C04 quick', 'C01 quick'], 'round 3'),
 'C07r3-A': ('C07', 'call_parentheses None / NoSingleString / NoSingleTable and a single argument in redundant parentheses that is not a string or table (`f((g()))`): the library call never returns', ['C07 quick'], 'round 3; needed the E1 watchdog (a call that does not return is reported with its input instead of hanging the explorer)'),
 'C07r3-B': ('C07', 'a `while` whose condition hangs and contains a table or a collapsible function, under a range that starts after byte 0 and contains the statement: panic', ['C07 quick'], 'round 3; missed at first: needed conditions with containers in the catalogue and block statements BEHIND another statement in the range plan'),
 'C09r3-A': ('C09', 'a range whose start falls inside a statement (the statement only overlaps the range)', ['C09 quick'], 'round 3'),
 'C09r3-B': ('C09', 'the empty range at the top of the file (`--range-start 0 --range-end 0`)', ['C09 quick'], 'round 3'),
 'C12r3-A': ('C12', 'sort_requires, one group of >= 21 requires containing a duplicated NAME (unstable sort switches algorithm above 20 elements)', ['C12 quick'], 'round 3; needed the large-group family (21..64 members x 5 base orders x every pair of positions for the duplicate), added on reading the description and before running it'),
 'C12r3-B': ('C12', '`local a, b = require("x")` next to requires: treated as a require, moves and merges groups', ['C12 quick'], 'round 3'),
 'C13r3-A': ('C13', '--check --output-format json and a file that differs only in line terminators (CRLF, missing final newline): exit 0, nothing printed', ['C13 quick'], 'round 3; missed at first: needed the terminator-only file kinds'),
 'C13r3-B': ('C13', 'a directory argument followed by an explicitly named file that the traversal does not select (`. e.txt`)', ['C13 quick', 'C16 quick'], 'round 3; C16 reported it, C13 only after the directory + explicit non-Lua file layout was added'),
 'C14r3-A': ('C14', 'write mode with --output-format json and a file failing for a non-parse reason; or a missing path among the arguments: exit 0', ['C14 quick'], 'round 3; missed at first: needed the JSON format and the missing / not-a-directory argument kinds in C14'),
 'C14r3-B': ('C14', 'a read-only (0444) file needing reformatting, process not root: silently replaced through rename', ['C14 quick'], 'round 3; missed at first: needed runs as an unprivileged user (permission bits mean nothing to root) and the inode / mode comparison for failing files'),
 'C15r3-A': ('C15', '--search-parent-directories, XDG_CONFIG_HOME set but empty, configuration in $HOME/.config', ['C15 quick'], 'round 3'),
 'C15r3-B': ('C15', 'a target leaving the working directory (`../o.lua`)', ['C15 quick'], 'round 3'),
 'C16r3-A': ('C16', 'a directory argument below the working directory whose PARENT (not the cwd) holds the .styluaignore', ['C16 quick'], 'round 3; needed the deeper directory argument `s/t` (added on reading the description and before running it)'),
 'C16r3-B': ('C16', 'a --glob list consisting only of negated patterns', ['C16 quick'], 'round 3; needed that glob list (added on reading the description and before running it)'),
 'C17r3-A': ('C17', 'stdin, --output-format json, input that does not parse: the error record goes to stdout', ['C17 quick'], 'round 3'),
 'C17r3-B': ('C17', '--respect-ignores --stdin-filepath naming a path re-included by a negated .styluaignore pattern', ['C17 quick', 'C16 quick'], 'round 3; C17 needed the negated pattern in its ignore file (added on reading the description and before running it)'),
 'C18r3-A': ('C18', 'JSON format, a pure insertion between unchanged lines', ['C18 quick'], 'round 3'),
 'C18r3-B': ('C18', '--check --output-format summary with already formatted text on stdin: listed as differing, exit 1', ['C18 quick', 'C17 quick'], 'round 3; C17 reported it, C18 only after every pair was also sent through stdin'),
 'C19r3-A': ('C19', 'an argument that makes the walker fail with an error other than "not found" (`plain.lua/`) after a file: format() returns without joining the pool', ['C19 quick'], 'round 3; needed the not-a-directory argument kind in the E3 scenarios (added on reading the description and before running it)'),
 'C19r3-B': ('C19', '--num-threads 1: the pool loses its second thread and the output job starves the formatting jobs (deadlock)', ['C19 quick'], 'round 3; needed the scheduler hook to report a deadlock of the program as an observation (exit 96) instead of a machinery error, and a run timeout in E2'),
 'C20r3-A': ('C20', 'plain stdin, no stylua.toml, an .editorconfig key and a conflicting command line flag', ['C20 quick', 'C15 quick'], 'round 3; C15 reported it, C20 only after the flag-over-conflicting-file carriers through stdin were added'),
 'C20r3-B': ('C20', '--search-parent-directories and a malformed stylua.toml in $XDG_CONFIG_HOME / $HOME/.config: silently ignored', ['C20 quick'], 'round 3; missed at first: needed malformed files in every place the search consults'),
 'C01r4-A': ('C01', 'Luau interpolated string whose expression is a table in redundant parentheses: `{({ 1 })}` becomes `{{ 1 }}`', ['C01 quick'], 'round 4'),
 'C01r4-B': ('C01', 'a `--` comment on the line of a `while` condition with `do` on the next line', ['C01 quick'], 'round 4'),
 'C02r4-A': ('C02', 'collapse_simple_statement ConditionalOnly/Always and an `if` body of two or more simple statements: collapsed to the first one', ['C02 quick'], 'round 4'),
 'C02r4-B': ('C02', '`(#t) ^ 2`, `(not x) ^ 2`: required parentheses around a non-minus unary base of `^` removed', ['C02 quick', 'C05 quick'], 'round 4'),
 'C03r4-A': ('C03', 'a block comment directly after a binary operator (forces the hanging layout): lost', ['C03 quick'], 'round 4'),
 'C03r4-B': ('C03', 'Luau, a comment directly after the `...` of a generic type pack parameter: lost', ['C03 quick'], 'round 4'),
 'C04r4-A': ('C04', 'a one-character string that is exactly the target quote under ForceDouble / ForceSingle (`\'"\'` -> `"""`)', ['C04 quick'], 'round 4'),
 'C04r4-B': ('C04', '`\\z` (or an escaped backslash followed by z) directly followed by a quote, with the string switching to that quote', ['C04 quick'], 'round 4'),
 'C05r4-A': ('C05', 'a parenthesised prefix `(e).k` / `(e)(...)` over the column width whose inner expression is a unary or a type assertion (hanging path entered with the wrong context)', ['C05 quick'], 'round 4'),
 'C05r4-B': ('C05', 'unary minus on a negated operand inside two or more redundant parentheses: `-((-b))` becomes `--b`', ['C05 quick'], 'round 4'),
 'C06r4-A': ('C06', 'a one-line block comment between a value and the following comma in a return / assignment list: multi-line on the first run, collapsed on the second', ['C06 quick'], 'round 4'),
 'C06r4-B': ('C06', 'call_parentheses None / NoSingleTable and a single table argument in redundant parentheses: call parentheses only omitted by the second run', ['C06 quick'], 'round 4'),
 'C07r4-A': ('C07', 'a table that fits the width with a `--` comment between a value and its separator: assertion in the single-line table path', ['C07 quick'], 'round 4'),
 'C07r4-B': ('C07', 'both range bounds given, non-ASCII text, a bound strictly inside a multi-byte character: slice panic', ['C07 quick'], 'round 4; missed at first: needed programs with multi-byte characters x EVERY pair of byte offsets (ranges are byte offsets, the range points were token-aligned)'),
 'C08r4-A': ('C08', '`-- stylua: ignore` followed by ANOTHER comment before the node (last comment wins)', ['C08 quick'], 'round 4; missed at first: needed directives followed / preceded by other comments'),
 'C08r4-B': ('C08', 'an `ignore start` region whose first statement ends with `;`', ['C08 quick'], 'round 4'),
 'C09r4-A': ('C09', 'a range selecting a statement in the plain `else` branch of an `if` that is not wholly inside the range: one indent level too shallow', ['C09 quick'], 'round 4; missed at first: the inside-as-whole-file comparison only looked at top-level statements and not at indentation'),
 'C09r4-B': ('C09', 'an out-of-range block statement carrying `-- stylua: ignore`, a range covering statements nested in it: they are formatted', ['C09 quick', 'C08 quick'], 'round 4; missed by C09 at first: needed ignored compound statements in the range space'),
 'C10r4-A': ('C10', 'CRLF input, a call with a bare string argument and a `--` comment behind the string (comment moved behind the added parenthesis keeps its CR)', ['C10 quick'], 'round 4'),
 'C10r4-B': ('C10', 'line_endings = Windows and a multi-line block comment written purely with LF', ['C10 quick'], 'round 4'),
 'C11r4-A': ('C11', 'call_parentheses None / NoSingle* and a single string / table argument inside TWO or more redundant parentheses', ['C11 quick'], 'round 4'),
 'C11r4-B': ('C11', 'Luau `type function` under space_after_function_names = Definitions / Calls', ['C11 quick'], 'round 4'),
 'C12r4-A': ('C12', 'sort_requires and a require whose call spans several lines directly followed by other requires (group split)', ['C12 quick'], 'round 4'),
 'C12r4-B': ('C12', 'sort_requires, an open ignore region whose `ignore end` comment sits directly above a group of two or more unsorted requires', ['C12 quick'], 'round 4; needed ignore regions opening and closing at every pair of positions of three require groups (added on reading the description and before running it; in the thorough tier the two-deviation sequences of F-REQ contain the shape as well)'),
 'OWN-buildB': ('C05', 'default features only (the `#[cfg(not(feature = "luau"))]` branch of the hanging path): a parenthesised prefix expression `(e).k` at a width where it hangs loses its parentheses', ['C05 quick (build B)'], 'my own change, to show that build B sees what build A (all syntaxes) cannot; the repository suite (153 tests, default features) passes with it'),
 'REV-json': ('C18', 'revert of fix b... (JSON diff keeps only the first inserted line)', ['C18 quick'], 'my own fix reverted, to show the check rediscovers the defect'),
 'REV-exitjson': ('C13', 'revert of the JSON-mode parse error exit status fix', ['C13 quick'], 'own fix reverted'),
 'REV-race': ('C19', 'revert of the atomic-max fix (load-then-store race, needs 1 preemption)', ['C19 quick'], 'own fix reverted; invisible to the free-running C13'),
 'REV-ec': ('C15', 'revert of the .editorconfig vs command line precedence fix', ['C15 quick'], 'own fix reverted'),
}
os.makedirs('/verif/seeded', exist_ok=True)
for sid,(prop,needs,by,notes) in INFO.items():
    src=os.path.join(STAGE,sid)
    if not os.path.isdir(src): print('missing',sid); continue
    dst=os.path.join('/verif/seeded',sid)
    os.makedirs(dst,exist_ok=True)
    for f in ['patch.diff','patch.rebased.diff','demo.sh','demo.rs','NOTES.md','verify.log']:
        if os.path.exists(os.path.join(src,f)): shutil.copy(os.path.join(src,f),os.path.join(dst,f))
    ver={}
    vl=os.path.join(src,'verify.log')
    if os.path.exists(vl):
        t=open(vl).read()
        for k in ['demo_base_exit','demo_mut_exit','suite_exit','suite_passed','suite_failed']:
            m=re.search(k+r'=(\d+)',t)
            if m: ver[k]=int(m.group(1))
    meta={'id':sid,'property':prop,'breaks':prop,'needs_to_manifest':needs,
          'confirmed_in_scratch_worktree':ver or 'n/a (derived from one of my own fix commits)',
          'what_i_ran':'tools/../verify.sh: scratch worktree of /repo outside /repo and /verif; cargo build --features luau,lua52,lua53,lua54,luajit; demo.sh on the unchanged build (must pass) and on the changed build (must fail); cargo test --workspace --no-fail-fast --offline with the change (153 must pass); then tools/runmut.sh <patch> quick <checks> against /repo (apply, run, git checkout -- .)',
          'apply':'git -C /repo apply seeded/%s/%s'%(sid,'patch.rebased.diff' if os.path.exists(os.path.join(src,'patch.rebased.diff')) else 'patch.diff'),
          'reported_by':by,'notes':notes}
    json.dump(meta,open(os.path.join(dst,'meta.json'),'w'),indent=1)
rows=['# Seeded changes', '', 'Each directory holds patch.diff (plus patch.rebased.diff where the pinned patch no longer applies to the repaired tree), the demonstration, the author\'s NOTES.md, my verify.log and meta.json.', '', '| id | property | needs in order to manifest | reported by | notes |', '|---|---|---|---|---|']
for sid,(prop,needs,by,notes) in INFO.items():
    if os.path.isdir(os.path.join('/verif/seeded',sid)):
        rows.append('| %s | %s | %s | %s | %s |'%(sid,prop,needs.replace('|','\\|'),', '.join(by) or '-',notes.replace('|','\\|')))
open('/verif/seeded/INDEX.md','w').write('\n'.join(rows)+'\n')
print(len([d for d in os.listdir('/verif/seeded') if os.path.isdir(os.path.join('/verif/seeded',d))]),'seeded changes')
