#!/usr/bin/env python3
"""Maintenance tool (never run by a registered command): turns an --emit-findings dump into
known_findings/<ID>.json. Failures are assigned to root-cause findings by the rules below; anything that matches no
rule is printed and NOT listed (so it stays a VIOLATION until it has been looked at)."""
import json, re, sys, collections
# usage: triage.py [--merge] <ID> <dump>...   (--merge: instances already listed under a finding stay listed — used when only
# one tier was re-run; an instance is an exact (class, configuration, range, program) key, so a stale one can only ever match
# the very same input failing in the very same way)
MERGE = '--merge' in sys.argv
_args = [a for a in sys.argv[1:] if a != '--merge']
prop, dumps = _args[0], _args[1:]

RULES = []
def rule(fid, what):
    def deco(fn):
        RULES.append((fid, what, fn)); return fn
    return deco

LINE_C = re.compile(r'--\s?c\d*')
@rule("KF-LINECOMMENT", "a `--` line comment placed between two tokens of one construct is re-emitted without its line break, so the code that follows becomes part of the comment (output does not parse, or parses to a different program, and the comment text changes)")
def swallow(cls, prog, out, ex):
    # the input has a line comment; in the output that comment is followed by code on the same line
    for m in re.finditer(r'--\s?c\d*x?( ?)\n', prog):
        c = m.group(0).rstrip('\n').rstrip(' ')
        for mo in re.finditer(re.escape(c) + r'([^\n\r]*)', out or ''):
            if mo.group(1).strip():
                return True
    return False

@rule("KF-NAMEKEY-COMMENT", "a comment between a table field name and its `=` (`{ a --[[c]] = 1 }`) is dropped; the repository snapshot tests/snapshots/tests__standard@table-comments-2.lua.snap pins this behaviour (`c -- key trailing comment` disappears there too), so it cannot be repaired without editing the suite")
def namekey(cls, prog, out, ex):
    return cls == 'comment-lost' and re.search(r'[A-Za-z_]\w*\s*(--(\[=*\[c\d+x(\nd)?\]=*\]|\s?c\d+x ?\n)\s*)+=', prog) is not None

@rule("KF-LENIENT-NEWLINE", "full_moon's tokenizer accepts a raw line break inside a quoted string once any escape sequence has been seen (`\"\\'<LF>\"`), which is not Lua; StyLua removes the now 'unnecessary' escape and the raw line break then ends the string (output does not parse / is not a fixpoint). Only reachable from text that no Lua implementation accepts")
def lenient_newline(cls, prog, out, ex):
    if 'F-STR' not in ex.get('group', ''): return False
    m = re.search(r'(["\'])(.*)\1', prog, re.S)
    return m is not None and ('\n' in m.group(2) or '\r' in m.group(2))

@rule("KF-FULLMOON-LUAU-BITOP-PANIC", "full_moon 1.2.0 panics (`BinOp::consume(..).unwrap()` in parsers.rs) instead of reporting a syntax error when `&` or `|` is used as a binary operator under syntax = Luau (the tokens exist there for types only); `format_code` therefore panics on such text. Defect of the dependency")
def fm_panic(cls, prog, out, ex):
    return cls == 'panic' and 'unwrap()' in ex.get('detail', '') and re.search(r'[&|]', prog) is not None and 'syn=Luau' in ex['key']

@rule("KF-DEEP-STACK", "deeply nested function literals (callback inside callback, table -> function -> table, 24-32 levels, a few hundred bytes) overflow the 2 MiB stack of a worker thread: the process aborts")
def deep_crash(cls, prog, out, ex):
    return cls == 'deep-crash'

@rule("KF-DEEP-EXPONENTIAL", "formatting time grows exponentially with the nesting depth of parenthesised binary operands, callbacks reached through `return`, if-expressions and parenthesised type unions (trial formatting is repeated at every level): 16-24 levels take longer than 15 s")
def deep_time(cls, prog, out, ex):
    return cls == 'deep-time'

@rule("KF-SIMILAR-OP-INDICES", "the `similar` 2.4.0 dependency reports wrong line indices for a deletion followed (after an unchanged line) by an insertion, e.g. `  x()\\n  x()\\nx()\\n` -> `x()\\nx()\\nx()\\n`: its own unified diff gets the impossible hunk header `@@ -1 +3 @@` (rejected by patch), and the JSON mismatch built from the same operations places the insertion at the wrong original line, so neither output reconstructs the formatted file")
def similar_idx(cls, prog, out, ex):
    return cls in ('unified-malformed', 'json-does-not-reconstruct', 'unified-does-not-reconstruct')

@rule("KF-Z-ESCAPED-SPACE", "`\\z` followed by an escaped space (`\"\\z\\ \"`): the backslash before the space is removed as an unnecessary escape, so the space is now skipped by `\\z` and the string loses a character. `\\ ` is only accepted by Luau / full_moon, not by PUC Lua")
def z_space(cls, prog, out, ex):
    return cls in ('literal-value', 'tok', 'nf') and '\\z\\ ' in prog

@rule("KF-UNARY-COMMENT", "a comment on its own line between a unary operator and its operand is glued to the operator (`- \\n--c\\na` -> `---c`): the minus becomes part of the comment")
def unary_comment(cls, prog, out, ex):
    return re.search(r'(-|not|#|~) \n--', prog) is not None and out is not None and re.search(r'---(\[=*\[)?c\d+x', out) is not None

@rule("KF-PAREN-INNER-COMMENT", "a comment on its own line directly before the expression (or type) inside redundant parentheses is dropped together with the parentheses (the comment is leading trivia of the inner expression, which the hanging / type paths do not carry over)")
def paren_inner(cls, prog, out, ex):
    return cls == 'comment-lost' and re.search(r'[({:] ?(--c\d+x)?\s*\n--(\[\[)?c\d+x(\]\])?\s*\n?\s*[\w(]', prog) is not None

@rule("KF-RAW-COMMENT-COPY", "comments that the formatter MOVES (behind a removed `;`, out of removed parentheses, in front of a hung operator, ...) are copied as raw tokens and skip the normalisation that in-place comments get: a block comment keeps its original line breaks and a line comment keeps its trailing carriage return, whatever line_endings says")
def raw_comment(cls, prog, out, ex):
    return cls == 'line-ending' and '--' in prog

@rule("KF-COMMENT-INDENT", "a comment in an odd place (between a name and `=`, inside a prefix expression, ...) makes the formatter emit a continuation line that starts with a single space instead of an indent unit")
def comment_indent(cls, prog, out, ex):
    return cls == 'indentation' and '--' in prog

@rule("KF-IDEM-COMMENT", "a comment inside a construct moves again on the second pass (the first pass re-attaches it to another token, which the second pass lays out differently)")
def idem_comment(cls, prog, out, ex):
    return cls == 'not-idempotent' and '--' in prog

@rule("KF-IDEM-NARROW", "at column widths far below what the construct needs (< 20 columns) the first pass settles for a layout that the second pass, reading its own line breaks, refines further")
def idem_narrow(cls, prog, out, ex):
    return cls == 'not-idempotent' and ex.get('wmax', 0) < 20

@rule("KF-IDEM-LAYOUT", "hanging / expansion decisions read the input layout (line breaks after `(` or `{`, where an operand ended), so near the width at which a construct stops fitting the first pass output is laid out differently by the second pass (e.g. `(a + b) * c`: pass 1 `(\n a + b\n) * c`, pass 2 hangs `+` as well)")
def idem_layout(cls, prog, out, ex):
    return cls == 'not-idempotent'

groups = collections.OrderedDict((fid, {"id": fid, "property": prop, "what": what, "instances": []}) for fid, what, _ in RULES)
unassigned = []
examples = {}
def fnv(s):
    h = 0xcbf29ce484222325
    for b in s.encode('utf-8'):
        h ^= b; h = (h * 0x100000001b3) & 0xffffffffffffffff
    return '%016x' % h
allinst = []
WIDTHS = {}
for d in dumps:
    for g in json.load(open(d))['groups']:
        for i in g['instances']:
            i['group'] = g['group']
        allinst.extend(g['instances'])
for _once in [0]:
    for inst in allinst:
        key, out = inst['key'], inst['output']
        cls, cfg, prog = key.split('|', 2)
        done = False
        for fid, what, fn in RULES:
            if fn(cls, prog, out, inst):
                groups[fid]["instances"].append(key); done = True; break
        if not done:
            unassigned.append((key, out))
        WIDTHS.setdefault(key, set()).update(inst.get('widths', [0]))
OLDINST = {}
try:
    _old = json.load(open('/verif/known_findings/%s.json' % prop))
    if MERGE:
        for f in _old.get("findings", []):
            if f["id"] in groups:
                OLDINST[f["id"]] = f.get("instances", {})
except FileNotFoundError:
    pass
def parse_ranges(s):
    ws = set()
    for part in str(s).split(','):
        if not part: continue
        if '-' in part:
            a, b = part.split('-'); ws.update(range(int(a), int(b) + 1))
        else:
            ws.add(int(part))
    return ws
res = {"property": prop, "findings": [g for g in groups.values() if g["instances"] or OLDINST.get(g["id"])], "fixed": []}
try:
    old = json.load(open('/verif/known_findings/%s.json' % prop)); res["fixed"] = old.get("fixed", [])
    # keep hand-written findings that this tool does not generate
    for f in old.get("findings", []):
        if f["id"] not in groups:
            if "instance_hashes" in f and "instances" not in f:
                f["instances"] = {h: "0" for h in f.pop("instance_hashes")}
            res["findings"].append(f)
except FileNotFoundError:
    pass
for f in res["findings"]:
    if "instances" in f:
        inst = sorted(set(f.pop("instances")))
        f["examples"] = sorted(inst, key=lambda k: (len(k), k))[:12]
        def ranges(ws):
            ws = sorted(ws); out = []; i = 0
            while i < len(ws):
                j = i
                while j + 1 < len(ws) and ws[j + 1] == ws[j] + 1: j += 1
                out.append(str(ws[i]) if i == j else '%d-%d' % (ws[i], ws[j])); i = j + 1
            return ','.join(out)
        new_inst = {fnv(k): WIDTHS.get(k, {0}) for k in inst}
        for h, r in OLDINST.get(f["id"], {}).items():
            new_inst.setdefault(h, set()).update(parse_ranges(r))
        f["instances"] = {h: ranges(w) for h, w in sorted(new_inst.items())}
        f.pop("instance_hashes", None)
json.dump(res, open('/verif/known_findings/%s.json' % prop, 'w'), indent=0)
for f in res["findings"]: print(f["id"], len(f.get("instances", {})))
print("UNASSIGNED", len(unassigned))
seen = set()
for key, out in unassigned:
    cls, cfg, prog = key.split('|', 2)
    if (cls, prog) in seen: continue
    seen.add((cls, prog))
    if len(seen) > 60: break
    print('  ', cls, '|', repr(prog), '|', cfg.replace('syn=All le=Unix it=Tabs iw=4 qs=AutoPreferDouble ', ''), '->', repr(out))
