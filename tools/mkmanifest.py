#!/usr/bin/env python3
"""Regenerates /verif/MANIFEST.json from the table below and validates it against the schema."""
import json, subprocess, sys
ALL = ["C%02d" % i for i in range(1, 21)]
E1 = "E1 explicit-state explorer of the real formatting function (in-process)"
# id -> (engine, level text, level note, technique, design ref)
TECH = "bounded exhaustive exploration of the real library (explicit-state: every program of the families x every listed configuration x every column width, exact by the width-quotient lemma)"
NOTE = "full_moon is the definition of parse_s (as in the property); lexer, literal decoders, normal form and census are the checker's own; bounds as listed in the evidence (program families, one comment / one deviation at a time in the quick tier); genuine defects of the unchanged tree are listed by exact input in known_findings/<id>.json"
CLAIMED = {
 "C01": ("E1", "Every program of the bounded families is formatted under every listed configuration at every column width; each distinct output is re-parsed with the configured syntax and re-lexed by an independent lexer. Exhaustive within the bounds, no sampling.", NOTE, TECH + ", re-parse oracle", "6/C01"),
 "C02": ("E1", "As C01, with the checker's own semantic normal form (literal values decoded, parentheses erased after parsing, truncation markers kept) and the independent token sequence compared between input and every distinct output.", NOTE, TECH + ", normal-form + token-sequence oracle", "6/C02"),
 "C03": ("E1", "One comment of each kind in every token gap of every catalogue statement (pairs of gaps in the thorough tier), every width, call_parentheses x collapse; comment multiset (kind, level, normalised text) and code token sequence compared between input and every distinct output.", NOTE, TECH + ", comment census oracle", "6/C03"),
 "C04": ("E1", "Every string body over the 18-symbol escape alphabet up to the length bound (quick: <=3, plus <=4 over the 10-symbol core; thorough: <=4 / <=6) in every quote form and string position, under 4 quote styles x 2 line endings x syntaxes, and ~170 numeric spellings x 9 contexts x all syntaxes: the decoded VALUE of every literal token (own decoder, from the reference manual) must be unchanged.", NOTE, TECH + ", literal-value oracle (own decoders)", "6/C04"),
 "C05": ("E1", "Every expression of the bounded families (all operator pairs, parenthesis levels, contexts; depth 3 on class representatives in the thorough tier) is formatted at EVERY column width and its operator tree is compared with the generator's own tree (own precedence parser); exhaustive within the stated bounds.", NOTE, TECH + ", O-TREE oracle against the generator's own precedence parser", "6/C05"),
 "C08": ("E1", "Every directive form (4 spellings, LF and CRLF files) before every statement kind, at three positions among neighbours, with / without `;` and trailing comment, at nesting depth 0-2; `ignore start/end` around every contiguous sub-sequence; ignored table fields; x collapse / line endings / sort / indent / call_parentheses x every width. The source slice of each ignored node must occur verbatim and in order; every other statement must come out as when formatted on its own.", NOTE, TECH + ", verbatim-slice oracle + differential 'neighbours still formatted' oracle", "6/C08"),
 "C09": ("E1", "Statement sequences and block statements x EVERY pair of range points (start / middle / last byte / end of every token and comment, plus open-ended, inverted and out-of-bounds ranges) x width classes; require blocks with sort_requires on. Text of everything outside the in-range statements must occur unchanged and in order; with no statement in range the text up to the last token is identical; top-level statements wholly inside equal the whole-file formatting.", NOTE, TECH + ", out-of-range text preservation oracle over all range-point pairs", "6/C09"),
 "C10": ("E1", "The statement catalogue (short and long names), comments in every gap (multi-line and own-line kinds), and their F-WS renderings (whole-file CRLF, mixed endings, space / mixed indentation, 7 end-of-file variants, code-free files) x line_endings x indent_type x indent_width x every width: outside string literals every line break is the configured one, no stray CR, indentation is tabs-only or a multiple of indent_width spaces (block comment interiors exempt), and the output ends with exactly one line ending.", NOTE, TECH + ", byte-level whitespace oracle on the independent lexer's token map", "6/C10"),
 "C11": ("E1", "Every call form (5 callees x 18 argument shapes x 9 following suffixes, written with and without parentheses, as statement and as value) and every function header form x quote_style x call_parentheses x space_after_function_names (full 80-point product in the thorough tier) x every width, plus every string body up to the length bound x 4 quote styles: each string token, call site and function header of the re-parsed output is judged against the rule for its option value. Not demanded (the statement does not): parentheses after an index/method follows, parentheses that carry a comment, spacing when something other than a name precedes `(`.", NOTE, TECH + ", per-token / per-call-site rule oracle on the re-parsed output", "6/C11"),
 "C12": ("E1", "All sequences (quick <= 3, thorough <= 4) over require / GetService / typed / two-name / non-require / call statements with duplicate and mixed-case names, x one (thorough: two) separator deviation (blank line, comment line, same-line comments, ignore directives / regions), sort on and off: the output statements (by normal form) must be a permutation that only reorders within one block, stable by NAME, blocks with an ignored member untouched, comments preserved.", NOTE, TECH + ", reference model of the documented sorting rule (accepting both readings of a comment line as separator)", "6/C12"),
 "C06": ("E1", "Every state reached by the exploration (program, configuration, width) is formatted a second time with the same configuration and must be a fixpoint, byte for byte.", NOTE, TECH + ", second transition must be a self-loop", "6/C06"),
 "C07": ("E1", "Every transition runs under catch_unwind with a wall-clock bound; outcome must be Ok for text the parser accepts and ParseError for text it rejects; panics, other errors, false successes and blow-ups are violations.", NOTE, TECH + ", outcome oracle on valid and invalid inputs", "6/C07"),
}
E2TECH = "bounded exhaustive exploration of the real binary (every element of a finite space of directory trees x argument vectors x environments is executed in a fresh scratch tree and compared with a reference model; expected bytes come from the library in-process)"
E2NOTE = "runs as root in a scratch directory under the system temp dir with HOME / XDG_CONFIG_HOME redirected and no configuration file above the scratch root (checked); the reference models are written from the README and the property statements; 'unreadable' is exercised through invalid UTF-8, 'unwritable' through the immutable attribute; genuine defects of the unchanged tree are listed by exact scenario in known_findings/<id>.json"
CLAIMED.update({
 "C13": ("E2", "Every multiset of <= 3 (thorough: 4) files over {formatted, unformatted, unparseable, invalid UTF-8, missing path} x layout {explicit arguments in every rotation, `.`, sub-directory} x 4 output formats x --verify x --num-threads {1,4}, in --check mode: tree snapshot (bytes, mtime, inode, mode, listing) unchanged; exit status 2 / 1 / 0 by the rule; the number of files reported as differing equals the number that differ; JSON lines parse.", E2NOTE, E2TECH + "; fault kinds enumerated", "6/C13"),
 "C14": ("E2", "Every ORDERED list of <= 3 (thorough: 4) files over {unformatted, formatted, unparseable, verify-failing, crashing, invalid UTF-8, immutable} (verify-failing and crashing through the cfg-guarded fault injector) x layouts x --verify x --num-threads {1,4} in write mode: healthy files end up as the library output, every failing file keeps its bytes, formatted files keep inode and mtime, nothing is created, exit status 2 iff any failure.", E2NOTE, E2TECH + "; fault enumeration through the injector hook", "6/C14"),
 "C18": ("E2", "Every file of <= 3 lines over a 9-shape line alphabet and <= 4 lines over its first four shapes (thorough: <= 5 lines over 9 shapes), paired with its real formatting, x 4 output formats: the checker's own unified-diff applier (validating hunk headers against bodies) and JSON-mismatch applier must reconstruct the library output; summary lists exactly the differing file; no diff iff already formatted; exit status matches.", E2NOTE, E2TECH + "; own diff appliers as oracle", "6/C18"),
 "C15": ("E2", "Directory chain above / at / below the working directory with 14 places a configuration can sit (both file names at 4 levels, .editorconfig at and above cwd, 4 XDG/HOME locations): every subset of <= 2 (thorough: 3) places x 13 targets (files at each level in several spellings, `.`, a file above cwd, stdin with and without --stdin-filepath) x --search-parent-directories x --no-editorconfig x a CLI override x --config-path; each place prescribes its own indent width, so the output names the configuration applied; compared with a reference model of the documented search (a set of acceptable answers where the documentation is silent). Plus per-file .editorconfig sections with several files per invocation.", E2NOTE, E2TECH + "; reference model of the documented search", "6/C15"),
 "C16": ("E2", "Tree with Lua / Luau / text / hidden / nested / ignored-directory files x .styluaignore at {none, cwd, sub-directory} with 5 pattern lists (directory, wildcard, wildcard + negation, anchored path, basename) x every argument list of <= 2 (thorough: 3) over 8 arguments incl. repeats, overlaps and alternative spellings x 3 glob sets x --respect-ignores x --allow-hidden, in write mode (set of changed files) and in --check summary mode (multiset of processed files): equal to the reference model's selection, each file once, everything else byte-identical.", E2NOTE, E2TECH + "; reference model of selection (gitignore semantics for the pattern alphabet only)", "6/C16"),
 "C17": ("E2", "Inputs {unformatted, formatted, invalid, empty, whitespace-only, CRLF, no final newline, 1 MiB (thorough: 4 and 16 MiB)} x option sets {plain, --verify, format options, range, --check in 4 formats} x --stdin-filepath {none, normal, ignored, ignored + --respect-ignores, normal + --respect-ignores} x with / without stylua.toml: stdout equals the library output under the resolved configuration (input unchanged when skipped, nothing on a parse error with exit 2), --check exit status and unified diff reconstruct, tree snapshot unchanged.", E2NOTE, E2TECH, "6/C17"),
 "C20": ("E2", "Every option x every documented value x the case variants the flag parser accepts x carrier {stylua.toml, flag, .editorconfig key in lower and upper case}: the file on disk equals the library output for the intended Config (on a probe that reveals every option, at 4 column widths, `max_line_length = off`); ~140 malformed stylua.toml files (every key with a character dropped / replaced / upper-cased, values of another type, unknown value / key / table, duplicate key, broken syntax) x 3 targets: exit status 2 and no file modified.", E2NOTE, E2TECH, "6/C20"),
 "C19": ("E3", "Stateless model checking of the real binary: every ordered list of <= 3 entries over {missing path (main thread logs an error), unparseable file (output thread logs an error), unformatted file (output thread records a diff), formatted file} in --check and write mode with --num-threads 1 and 4; for each, EVERY interleaving of the scheduling points (each operation on the two status atomics, each channel send / receive, the main thread's hand-over to pool.join) with preemption bound 0, 1, 2 (thorough: 3 and unbounded, per-scenario cap reported): exit status and file contents must equal the sequential reference in every schedule; every failing schedule is replayed and must reproduce its trace.", "the scheduler hook (src/cli/verif_sched.rs, cfg stylua_verif) wraps the two statics and the channel; worker threads run free between their scheduling points (they share nothing else); decisions are taken at quiescence only and a replay that diverges is a machinery error; memory orderings weaker than SeqCst are not modelled (the code uses SeqCst)", "stateless model checking: depth-first search over the choice sequences of a cooperative scheduler compiled into the real binary, iterative preemption bounding", "6/C19 + Appendix A"),
})
NOT_YET = "check under construction in this session (engine designed in DESIGN.md, not yet registered)"
def main():
    checks = []
    for pid in ALL:
        if pid not in CLAIMED: continue
        eng, text, note, tech, ref = CLAIMED[pid]
        checks.append({
            "property_id": pid,
            "quick_cmd": "./check %s quick" % pid,
            "thorough_cmd": "./check %s thorough" % pid,
            "evidence_file": "/verif/evidence/%s.json" % pid,
            "replay_cmd_template": "./check %s --replay {path}" % pid,
            "engine": eng,
            "level_claimed": {"category": "model_checking", "text": text, "design_ref": "DESIGN.md section " + ref},
            "level_note": note,
            "technique": tech,
        })
    hooks_commits = subprocess.run(["git", "-C", "/repo", "log", "--format=%H %s", "--grep=^verif hook"], capture_output=True, text=True).stdout.strip().splitlines()
    m = {
        "version": 1,
        "setup_cmd": "./setup.sh",
        "hooks": {
            "guard": "--cfg stylua_verif",
            "enable": "RUSTFLAGS='--cfg stylua_verif' (set in /verif/mc/.cargo/config.toml for the harness crate, and by ./check for the CLI binary build)",
            "baseline_off_cmd": "cd /repo && cargo test --workspace --no-fail-fast --offline",
            "source_commits": [l.split()[0] for l in hooks_commits],
            "add_only": True,
        },
        "engines": [
            {"name": "E1", "path": "/verif/mc", "serves_properties": [p for p in CLAIMED if CLAIMED[p][0] == "E1"], "kind_free_text": E1},
            {"name": "E3", "path": "/verif/mc/src/sched.rs", "serves_properties": ["C19"], "kind_free_text": "E3 schedule explorer: DFS over the choices of the cooperative scheduler hook in the real binary"},
            {"name": "E2", "path": "/verif/mc/src/cli.rs", "serves_properties": [p for p in CLAIMED if CLAIMED[p][0] == "E2"], "kind_free_text": "E2 explorer of the real stylua binary (built from /repo with hooks on) against reference models"},
        ],
        "checks": checks,
        "notes": "See DESIGN.md. Known findings: /verif/known_findings/<id>.json (read-only for the checks). Seeded changes: /verif/seeded/.",
        "not_applicable": [{"property_id": p, "reason": NOT_YET} for p in ALL if p not in CLAIMED],
    }
    json.dump(m, open("/verif/MANIFEST.json", "w"), indent=1)
    try:
        import jsonschema
        jsonschema.validate(m, json.load(open("/root/.vp/MANIFEST.schema.json")))
        print("MANIFEST.json valid,", len(checks), "checks")
    except ImportError:
        print("jsonschema not available; not validated")
main()
