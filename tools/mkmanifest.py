#!/usr/bin/env python3
"""Regenerates /verif/MANIFEST.json from the table below and validates it against the schema."""
import json, subprocess, sys
ALL = ["C%02d" % i for i in range(1, 21)]
E1 = "E1 explicit-state explorer of the real formatting function (in-process)"
# id -> (engine, level text, level note, technique, design ref)
CLAIMED = {
 "C05": ("E1", "Every expression of the bounded families (all operator pairs, parenthesis levels, contexts; depth 3 on class representatives in the thorough tier) is formatted at EVERY column width and its operator tree is compared with the generator's own tree; exhaustive within the stated bounds, no sampling.",
         "full_moon is the definition of parse_s; the generator's precedence parser and the normal form are the checker's own; bounds: depth<=2 (quick) / 3 (thorough), one non-name operand at a time",
         "bounded exhaustive exploration of the real library (explicit-state, all widths via the width-quotient lemma), O-TREE oracle", "6/C05"),
}
NOT_YET = "check under construction in this session (engine designed in DESIGN.md, not yet registered)"
def main():
    checks = []
    for pid in ALL:
        if pid not in CLAIMED: continue
        eng, text, note, tech, ref = CLAIMED[pid]
        checks.append({
            "property_id": pid,
            "quick_cmd": "./check %s quick" % pid,
            "thorough_cmd": "./check %s thorough" % pid,
            "evidence_file": "/verif/evidence/%s.json" % pid,
            "replay_cmd_template": "./check %s --replay {path}" % pid,
            "engine": eng,
            "level_claimed": {"category": "model_checking", "text": text, "design_ref": "DESIGN.md section " + ref},
            "level_note": note,
            "technique": tech,
        })
    hooks_commits = subprocess.run(["git", "-C", "/repo", "log", "--format=%H %s", "--grep=^verif hook"], capture_output=True, text=True).stdout.strip().splitlines()
    m = {
        "version": 1,
        "setup_cmd": "./setup.sh",
        "hooks": {
            "guard": "--cfg stylua_verif",
            "enable": "RUSTFLAGS='--cfg stylua_verif' (set in /verif/mc/.cargo/config.toml for the harness crate, and by ./check for the CLI binary build)",
            "baseline_off_cmd": "cd /repo && cargo test --workspace --no-fail-fast --offline",
            "source_commits": [l.split()[0] for l in hooks_commits],
            "add_only": True,
        },
        "engines": [
            {"name": "E1", "path": "/verif/mc", "serves_properties": [p for p in CLAIMED if CLAIMED[p][0] == "E1"], "kind_free_text": E1},
        ],
        "checks": checks,
        "notes": "See DESIGN.md. Known findings: /verif/known_findings/<id>.json (read-only for the checks). Seeded changes: /verif/seeded/.",
        "not_applicable": [{"property_id": p, "reason": NOT_YET} for p in ALL if p not in CLAIMED],
    }
    json.dump(m, open("/verif/MANIFEST.json", "w"), indent=1)
    try:
        import jsonschema
        jsonschema.validate(m, json.load(open("/root/.vp/MANIFEST.schema.json")))
        print("MANIFEST.json valid,", len(checks), "checks")
    except ImportError:
        print("jsonschema not available; not validated")
main()
