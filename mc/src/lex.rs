//! O-LEX: an independent Lua / Luau lexer (no full_moon code involved).
//! Produces code tokens and comments with byte spans. Used by O-TOK, O-CENSUS, C04, C10, C11.

#[derive(Clone, Debug, PartialEq, Eq)]
pub enum Tok {
    /// identifier or keyword
    Word(String),
    Number(String),
    /// quote: b'"', b'\'' ; raw body between the quotes
    Str { quote: u8, body: Vec<u8> },
    /// long bracket string: level, raw body
    LongStr { level: usize, body: Vec<u8> },
    /// a piece of a Luau interpolated string: raw text of the piece including its delimiters (` { })
    Interp(Vec<u8>),
    Sym(String),
}

#[derive(Clone, Debug, PartialEq, Eq)]
pub enum Comment {
    Shebang(Vec<u8>),
    Line(Vec<u8>),
    Block { level: usize, body: Vec<u8> },
}

#[derive(Clone, Debug)]
pub struct Lexed {
    pub toks: Vec<(Tok, usize, usize)>,
    pub comments: Vec<(Comment, usize, usize)>,
}

#[derive(Debug)]
pub struct LexError(pub String, pub usize);

fn is_word_start(c: u8) -> bool {
    c.is_ascii_alphabetic() || c == b'_' || c >= 0x80
}
fn is_word(c: u8) -> bool {
    c.is_ascii_alphanumeric() || c == b'_' || c >= 0x80
}

/// if `s[i..]` starts a long bracket opener `[=*[`, return its level
fn long_open(s: &[u8], i: usize) -> Option<usize> {
    if s.get(i) != Some(&b'[') {
        return None;
    }
    let mut j = i + 1;
    while s.get(j) == Some(&b'=') {
        j += 1;
    }
    if s.get(j) == Some(&b'[') {
        Some(j - i - 1)
    } else {
        None
    }
}

/// body start -> (body end, position after closer)
fn long_close(s: &[u8], from: usize, level: usize) -> Option<(usize, usize)> {
    let mut i = from;
    while i < s.len() {
        if s[i] == b']' {
            let mut j = i + 1;
            while s.get(j) == Some(&b'=') {
                j += 1;
            }
            if j - i - 1 == level && s.get(j) == Some(&b']') {
                return Some((i, j + 1));
            }
            i = j;
        } else {
            i += 1;
        }
    }
    None
}

const SYMS3: [&str; 3] = ["...", "..=", "//="];
const SYMS2: [&str; 16] = [
    "==", "~=", "<=", ">=", "..", "::", "->", "+=", "-=", "*=", "/=", "%=", "^=", "//", "<<", "!=",
];

pub fn lex(src: &str) -> Result<Lexed, LexError> {
    let s = src.as_bytes();
    let mut i = 0usize;
    let mut toks = Vec::new();
    let mut comments = Vec::new();
    // stack of brace depths for interpolated strings we are inside of
    let mut interp: Vec<usize> = Vec::new();
    if s.starts_with(b"#!") {
        let mut j = 0;
        while j < s.len() && s[j] != b'\n' {
            j += 1;
        }
        comments.push((Comment::Shebang(s[0..j].to_vec()), 0, j));
        i = j;
    }
    while i < s.len() {
        let c = s[i];
        if c == b' ' || c == b'\t' || c == b'\n' || c == b'\r' || c == 0x0b || c == 0x0c {
            i += 1;
            continue;
        }
        if c == b'-' && s.get(i + 1) == Some(&b'-') {
            let start = i;
            if let Some(level) = long_open(s, i + 2) {
                let body_start = i + 2 + level + 2;
                match long_close(s, body_start, level) {
                    Some((be, after)) => {
                        comments.push((Comment::Block { level, body: s[body_start..be].to_vec() }, start, after));
                        i = after;
                        continue;
                    }
                    None => return Err(LexError("unclosed block comment".into(), start)),
                }
            }
            let mut j = i + 2;
            while j < s.len() && s[j] != b'\n' {
                j += 1;
            }
            comments.push((Comment::Line(s[i + 2..j].to_vec()), start, j));
            i = j;
            continue;
        }
        if is_word_start(c) {
            let st = i;
            while i < s.len() && is_word(s[i]) {
                i += 1;
            }
            toks.push((Tok::Word(src[st..i].to_string()), st, i));
            continue;
        }
        if c.is_ascii_digit() || (c == b'.' && s.get(i + 1).map_or(false, |d| d.is_ascii_digit())) {
            let st = i;
            let hex = c == b'0' && matches!(s.get(i + 1), Some(b'x') | Some(b'X'));
            i += 1;
            while i < s.len() {
                let d = s[i];
                if d.is_ascii_alphanumeric() || d == b'_' {
                    let exp = if hex { d == b'p' || d == b'P' } else { d == b'e' || d == b'E' };
                    i += 1;
                    if exp && matches!(s.get(i), Some(b'+') | Some(b'-')) {
                        i += 1;
                    }
                } else if d == b'.' && s.get(i + 1) != Some(&b'.') {
                    i += 1;
                } else {
                    break;
                }
            }
            toks.push((Tok::Number(src[st..i].to_string()), st, i));
            continue;
        }
        if c == b'"' || c == b'\'' {
            let st = i;
            i += 1;
            let bs = i;
            // mirrors the most lenient mode of full_moon's tokenizer (5.2+/Luau): after ANY escape one raw line-break
            // character is tolerated later in the string; being more lenient than the parser is harmless (every text is
            // also parsed), being stricter would turn into false alarms
            let mut escape = false;
            let mut zesc = false;
            loop {
                if i >= s.len() {
                    return Err(LexError("unclosed string".into(), st));
                }
                let d = s[i];
                if escape {
                    escape = false;
                    zesc = true;
                    i += 1;
                    continue;
                }
                if d == b'\\' {
                    escape = true;
                    i += 1;
                    continue;
                }
                if d == b'\n' || d == b'\r' {
                    if zesc {
                        zesc = false;
                        i += 1;
                        continue;
                    }
                    return Err(LexError("line break in string".into(), st));
                }
                if d == c {
                    break;
                }
                i += 1;
            }
            if i > s.len() {
                return Err(LexError("unclosed string".into(), st));
            }
            toks.push((Tok::Str { quote: c, body: s[bs..i].to_vec() }, st, i + 1));
            i += 1;
            continue;
        }
        if c == b'[' {
            if let Some(level) = long_open(s, i) {
                let st = i;
                let body_start = i + level + 2;
                match long_close(s, body_start, level) {
                    Some((be, after)) => {
                        toks.push((Tok::LongStr { level, body: s[body_start..be].to_vec() }, st, after));
                        i = after;
                        continue;
                    }
                    None => return Err(LexError("unclosed long string".into(), st)),
                }
            }
        }
        if c == b'`' || (c == b'}' && interp.last() == Some(&0)) {
            // start or continuation of an interpolated string
            let st = i;
            if c == b'}' {
                interp.pop();
            }
            i += 1;
            loop {
                if i >= s.len() {
                    return Err(LexError("unclosed interpolated string".into(), st));
                }
                let d = s[i];
                if d == b'\\' {
                    i += 2;
                    continue;
                }
                if d == b'`' {
                    i += 1;
                    break;
                }
                if d == b'{' {
                    i += 1;
                    interp.push(0);
                    break;
                }
                i += 1;
            }
            if i > s.len() {
                return Err(LexError("unclosed interpolated string".into(), st));
            }
            toks.push((Tok::Interp(s[st..i].to_vec()), st, i));
            continue;
        }
        // symbols
        if c == b'{' {
            if let Some(d) = interp.last_mut() {
                *d += 1;
            }
        } else if c == b'}' {
            if let Some(d) = interp.last_mut() {
                if *d > 0 {
                    *d -= 1;
                }
            }
        }
        let rest = &src[i..];
        let mut matched = None;
        if rest.is_char_boundary(3.min(rest.len())) {
            for m in SYMS3.iter() {
                if rest.starts_with(m) {
                    matched = Some(*m);
                    break;
                }
            }
        }
        if matched.is_none() {
            for m in SYMS2.iter() {
                if rest.starts_with(m) {
                    matched = Some(*m);
                    break;
                }
            }
        }
        if let Some(m) = matched {
            toks.push((Tok::Sym(m.to_string()), i, i + m.len()));
            i += m.len();
            continue;
        }
        if c < 0x80 && c >= 0x21 {
            toks.push((Tok::Sym((c as char).to_string()), i, i + 1));
            i += 1;
            continue;
        }
        return Err(LexError(format!("unexpected byte {:#x}", c), i));
    }
    Ok(Lexed { toks, comments })
}

/// Code token sequence used by O-TOK: names, keywords, operators (everything except `( ) , ;`) and literal
/// *values* (via `val`), so that re-quoting or `.5`->`0.5` do not count as a change.
pub fn tok_signature(l: &Lexed, modern: bool, intfloat: bool) -> Vec<String> {
    let mut v = Vec::with_capacity(l.toks.len());
    for (t, _, _) in &l.toks {
        match t {
            Tok::Word(w) => v.push(format!("w:{}", w)),
            Tok::Number(n) => v.push(format!("n:{}", crate::val::number_key(n, intfloat))),
            Tok::Str { body, .. } => v.push(format!("s:{}", hex(&crate::val::decode_quoted(body, modern)))),
            Tok::LongStr { body, .. } => v.push(format!("s:{}", hex(&crate::val::decode_long(body)))),
            Tok::Interp(b) => v.push(format!("i:{}", hex(b))),
            Tok::Sym(s) => {
                if s != "(" && s != ")" && s != "," && s != ";" {
                    v.push(format!("y:{}", s))
                }
            }
        }
    }
    v
}

pub fn hex(b: &[u8]) -> String {
    // readable where possible
    if b.iter().all(|c| (0x20..0x7f).contains(c) && *c != b'%') {
        return String::from_utf8_lossy(b).into_owned();
    }
    let mut s = String::from("%");
    for c in b {
        s.push_str(&format!("{:02x}", c));
    }
    s
}

/// Comment census (O-CENSUS): multiset of normalised comments, sorted.
pub fn census(l: &Lexed) -> Vec<String> {
    let mut v: Vec<String> = l
        .comments
        .iter()
        .map(|(c, _, _)| match c {
            Comment::Shebang(b) => format!("shebang:{}", hex(trim_end(b))),
            Comment::Line(b) => format!("line:{}", hex(trim_end(b))),
            Comment::Block { level, body } => format!("block{}:{}", level, hex(&unify_newlines(body))),
        })
        .collect();
    v.sort();
    v
}

fn trim_end(b: &[u8]) -> &[u8] {
    // what Rust's str::trim_end would strip for ASCII input plus the lone CR
    let mut e = b.len();
    while e > 0 && matches!(b[e - 1], b' ' | b'\t' | b'\r' | 0x0b | 0x0c | b'\n') {
        e -= 1;
    }
    &b[..e]
}

pub fn unify_newlines(b: &[u8]) -> Vec<u8> {
    let mut o = Vec::with_capacity(b.len());
    let mut i = 0;
    while i < b.len() {
        if b[i] == b'\r' && b.get(i + 1) == Some(&b'\n') {
            o.push(b'\n');
            i += 2;
        } else {
            o.push(b[i]);
            i += 1;
        }
    }
    o
}
