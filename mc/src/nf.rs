//! O-NF: semantic normal form of a parsed program, as a bracketed event stream.
//! Independent of StyLua's own verify_ast: literals are *decoded* (O-VAL), parentheses are erased after parsing
//! (so grouping survives as tree shape), and a truncation marker is kept where `(f())` / `(...)` sits in a
//! multi-value position.

use full_moon::ast::*;
use full_moon::node::Node;
use full_moon::tokenizer::{Token, TokenReference, TokenType, StringLiteralQuoteType};
use full_moon::visitors::Visitor;
use std::collections::HashSet;

pub struct Nf {
    pub out: String,
    skip: HashSet<usize>,
    trunc: HashSet<usize>,
    modern: bool,
    intfloat: bool,
    /// one entry per top-level statement: offset into `out` where it starts
    pub stmt_starts: Vec<usize>,
    depth_block: usize,
    /// enclosing type constructors ("" = transparent); used to flatten `(A | B) | C` into `A | B | C`
    tstack: Vec<&'static str>,
}

fn pos(t: &TokenReference) -> usize {
    t.token().start_position().bytes()
}

fn innermost(e: &Expression) -> &Expression {
    match e {
        Expression::Parentheses { expression, .. } => innermost(expression),
        _ => e,
    }
}

fn is_multi(e: &Expression) -> bool {
    match innermost(e) {
        Expression::FunctionCall(_) => true,
        Expression::Symbol(t) => t.token().to_string() == "...",
        _ => false,
    }
}

impl Nf {
    pub fn new(modern: bool, intfloat: bool) -> Self {
        Nf { out: String::new(), skip: HashSet::new(), trunc: HashSet::new(), modern, intfloat, stmt_starts: vec![], depth_block: 0, tstack: vec![] }
    }

    fn mark_last<'a>(&mut self, e: Option<&'a Expression>) {
        if let Some(Expression::Parentheses { contained, expression }) = e {
            if is_multi(expression) {
                self.trunc.insert(pos(contained.tokens().0));
            }
        }
    }

    fn ev(&mut self, s: &str) {
        self.out.push_str(s);
        self.out.push('\x01');
    }
}

pub fn nf_of(ast: &Ast, modern: bool, intfloat: bool) -> Nf {
    let mut n = Nf::new(modern, intfloat);
    n.visit_ast(ast);
    n
}

impl Visitor for Nf {
    fn visit_block(&mut self, b: &Block) {
        for (_, semi) in b.stmts_with_semicolon() {
            if let Some(s) = semi {
                self.skip.insert(pos(s));
            }
        }
        if let Some((_, Some(s))) = b.last_stmt_with_semicolon() {
            self.skip.insert(pos(s));
        }
        self.depth_block += 1;
        self.ev("<Block");
    }
    fn visit_block_end(&mut self, _b: &Block) {
        self.depth_block -= 1;
        self.ev(">");
    }
    fn visit_stmt(&mut self, _s: &Stmt) {
        if self.depth_block == 1 {
            self.stmt_starts.push(self.out.len());
        }
        self.ev("<Stmt");
    }
    fn visit_stmt_end(&mut self, _s: &Stmt) {
        self.ev(">");
    }
    fn visit_last_stmt(&mut self, _s: &LastStmt) {
        if self.depth_block == 1 {
            self.stmt_starts.push(self.out.len());
        }
        self.ev("<Last");
    }
    fn visit_last_stmt_end(&mut self, _s: &LastStmt) {
        self.ev(">");
    }
    fn visit_expression(&mut self, e: &Expression) {
        match e {
            Expression::Parentheses { contained, .. } => {
                let (a, b) = contained.tokens();
                self.skip.insert(pos(a));
                self.skip.insert(pos(b));
                if self.trunc.contains(&pos(a)) {
                    self.ev("<Trunc");
                }
            }
            Expression::BinaryOperator { .. } => self.ev("<Bin"),
            Expression::UnaryOperator { .. } => self.ev("<Un"),
            #[cfg(feature = "allsyn")]
            Expression::TypeAssertion { .. } => self.ev("<Cast"),
            #[cfg(feature = "allsyn")]
            Expression::IfExpression(_) => self.ev("<IfE"),
            _ => {}
        }
    }
    fn visit_expression_end(&mut self, e: &Expression) {
        match e {
            Expression::Parentheses { contained, .. } => {
                if self.trunc.contains(&pos(contained.tokens().0)) {
                    self.ev(">");
                }
            }
            Expression::BinaryOperator { .. } | Expression::UnaryOperator { .. } => self.ev(">"),
            #[cfg(feature = "allsyn")]
            Expression::TypeAssertion { .. } | Expression::IfExpression(_) => self.ev(">"),
            _ => {}
        }
    }
    fn visit_function_args(&mut self, a: &FunctionArgs) {
        if let FunctionArgs::Parentheses { parentheses, arguments } = a {
            let (o, c) = parentheses.tokens();
            self.skip.insert(pos(o));
            self.skip.insert(pos(c));
            self.mark_last(arguments.last().map(|p| p.value()));
        }
        self.ev("<Args");
    }
    fn visit_function_args_end(&mut self, _a: &FunctionArgs) {
        self.ev(">");
    }
    fn visit_return(&mut self, r: &Return) {
        self.mark_last(r.returns().last().map(|p| p.value()));
        self.ev("<Return");
    }
    fn visit_return_end(&mut self, _r: &Return) {
        self.ev(">");
    }
    fn visit_local_assignment(&mut self, a: &LocalAssignment) {
        self.mark_last(a.expressions().last().map(|p| p.value()));
        self.ev("<Local");
    }
    fn visit_local_assignment_end(&mut self, _a: &LocalAssignment) {
        self.ev(">");
    }
    fn visit_assignment(&mut self, a: &Assignment) {
        self.mark_last(a.expressions().last().map(|p| p.value()));
        self.ev("<Assign");
    }
    fn visit_assignment_end(&mut self, _a: &Assignment) {
        self.ev(">");
    }
    fn visit_generic_for(&mut self, g: &GenericFor) {
        self.mark_last(g.expressions().last().map(|p| p.value()));
        self.ev("<GFor");
    }
    fn visit_generic_for_end(&mut self, _g: &GenericFor) {
        self.ev(">");
    }
    fn visit_table_constructor(&mut self, t: &TableConstructor) {
        for p in t.fields().pairs() {
            if let Some(sep) = p.punctuation() {
                self.skip.insert(pos(sep));
            }
        }
        if let Some(p) = t.fields().last() {
            if let Field::NoKey(e) = p.value() {
                self.mark_last(Some(e));
            }
        }
        self.ev("<Table");
    }
    fn visit_table_constructor_end(&mut self, _t: &TableConstructor) {
        self.ev(">");
    }
    fn visit_field(&mut self, f: &Field) {
        match f {
            Field::ExpressionKey { .. } => self.ev("<FieldE"),
            Field::NameKey { .. } => self.ev("<FieldN"),
            Field::NoKey(_) => self.ev("<FieldP"),
            _ => self.ev("<Field?"),
        }
    }
    fn visit_field_end(&mut self, _f: &Field) {
        self.ev(">");
    }
    fn visit_function_call(&mut self, _c: &FunctionCall) {
        self.ev("<Call");
    }
    fn visit_function_call_end(&mut self, _c: &FunctionCall) {
        self.ev(">");
    }
    fn visit_method_call(&mut self, _c: &MethodCall) {
        self.ev("<Method");
    }
    fn visit_method_call_end(&mut self, _c: &MethodCall) {
        self.ev(">");
    }
    fn visit_index(&mut self, _c: &Index) {
        self.ev("<Index");
    }
    fn visit_index_end(&mut self, _c: &Index) {
        self.ev(">");
    }
    fn visit_prefix(&mut self, _c: &Prefix) {
        self.ev("<Prefix");
    }
    fn visit_prefix_end(&mut self, _c: &Prefix) {
        self.ev(">");
    }
    fn visit_var_expression(&mut self, _c: &VarExpression) {
        self.ev("<VarE");
    }
    fn visit_var_expression_end(&mut self, _c: &VarExpression) {
        self.ev(">");
    }
    fn visit_function_body(&mut self, _c: &FunctionBody) {
        self.ev("<FnBody");
    }
    fn visit_function_body_end(&mut self, _c: &FunctionBody) {
        self.ev(">");
    }
    fn visit_parameter(&mut self, _c: &Parameter) {
        self.ev("<Param");
    }
    fn visit_parameter_end(&mut self, _c: &Parameter) {
        self.ev(">");
    }
    fn visit_function_name(&mut self, _c: &FunctionName) {
        self.ev("<FnName");
    }
    fn visit_function_name_end(&mut self, _c: &FunctionName) {
        self.ev(">");
    }
    fn visit_if(&mut self, _c: &If) {
        self.ev("<If");
    }
    fn visit_if_end(&mut self, _c: &If) {
        self.ev(">");
    }
    fn visit_else_if(&mut self, _c: &ElseIf) {
        self.ev("<ElseIf");
    }
    fn visit_else_if_end(&mut self, _c: &ElseIf) {
        self.ev(">");
    }
    fn visit_numeric_for(&mut self, _c: &NumericFor) {
        self.ev("<NFor");
    }
    fn visit_numeric_for_end(&mut self, _c: &NumericFor) {
        self.ev(">");
    }
    fn visit_while(&mut self, _c: &While) {
        self.ev("<While");
    }
    fn visit_while_end(&mut self, _c: &While) {
        self.ev(">");
    }
    fn visit_repeat(&mut self, _c: &Repeat) {
        self.ev("<Repeat");
    }
    fn visit_repeat_end(&mut self, _c: &Repeat) {
        self.ev(">");
    }
    fn visit_do(&mut self, _c: &Do) {
        self.ev("<Do");
    }
    fn visit_do_end(&mut self, _c: &Do) {
        self.ev(">");
    }

    // ---- Luau ----
    #[cfg(feature = "allsyn")]
    fn visit_type_info(&mut self, t: &luau::TypeInfo) {
        use luau::TypeInfo;
        // union and intersection are associative: a union directly inside a union (through redundant parentheses only)
        // is the same type, so it gets no bracket of its own
        let parent = self.tstack.iter().rev().find(|x| !x.is_empty()).copied().unwrap_or("top");
        let tag: &'static str = match t {
            TypeInfo::Tuple { parentheses, types } if types.len() == 1 => {
                let (a, b) = parentheses.tokens();
                self.skip.insert(pos(a));
                self.skip.insert(pos(b));
                ""
            }
            TypeInfo::Union(u) => {
                if let Some(l) = u.leading() {
                    self.skip.insert(pos(l));
                }
                if parent == "<TUnion" { "" } else { "<TUnion" }
            }
            TypeInfo::Intersection(u) => {
                if let Some(l) = u.leading() {
                    self.skip.insert(pos(l));
                }
                if parent == "<TInter" { "" } else { "<TInter" }
            }
            TypeInfo::Table { fields, .. } => {
                for p in fields.pairs() {
                    if let Some(sep) = p.punctuation() {
                        self.skip.insert(pos(sep));
                    }
                }
                "<TTable"
            }
            TypeInfo::Optional { .. } => "<TOpt",
            TypeInfo::Callback { .. } => "<TFn",
            TypeInfo::Array { .. } => "<TArr",
            TypeInfo::Generic { .. } => "<TGen",
            TypeInfo::Tuple { .. } => "<TTuple",
            TypeInfo::Variadic { .. } => "<TVar",
            TypeInfo::Typeof { .. } => "<TTypeof",
            TypeInfo::Module { .. } => "<TMod",
            _ => "<T",
        };
        // a flattened union member list still needs its operator tokens: they are ordinary symbols and are kept
        self.tstack.push(tag);
        if !tag.is_empty() {
            self.ev(tag);
        }
    }
    #[cfg(feature = "allsyn")]
    fn visit_type_info_end(&mut self, _t: &luau::TypeInfo) {
        if let Some(tag) = self.tstack.pop() {
            if !tag.is_empty() {
                self.ev(">");
            }
        }
    }
    #[cfg(feature = "allsyn")]
    fn visit_type_argument(&mut self, _t: &luau::TypeArgument) {
        self.ev("<TArg");
    }
    #[cfg(feature = "allsyn")]
    fn visit_type_argument_end(&mut self, _t: &luau::TypeArgument) {
        self.ev(">");
    }
    #[cfg(feature = "allsyn")]
    fn visit_type_field(&mut self, _t: &luau::TypeField) {
        self.ev("<TField");
    }
    #[cfg(feature = "allsyn")]
    fn visit_type_field_end(&mut self, _t: &luau::TypeField) {
        self.ev(">");
    }
    #[cfg(feature = "allsyn")]
    fn visit_type_specifier(&mut self, _t: &luau::TypeSpecifier) {
        self.ev("<TSpec");
    }
    #[cfg(feature = "allsyn")]
    fn visit_type_specifier_end(&mut self, _t: &luau::TypeSpecifier) {
        self.ev(">");
    }
    #[cfg(feature = "allsyn")]
    fn visit_type_assertion(&mut self, _t: &luau::TypeAssertion) {
        self.ev("<TAssert");
    }
    #[cfg(feature = "allsyn")]
    fn visit_type_assertion_end(&mut self, _t: &luau::TypeAssertion) {
        self.ev(">");
    }
    #[cfg(feature = "allsyn")]
    fn visit_generic_declaration(&mut self, _t: &luau::GenericDeclaration) {
        self.ev("<Generics");
    }
    #[cfg(feature = "allsyn")]
    fn visit_generic_declaration_end(&mut self, _t: &luau::GenericDeclaration) {
        self.ev(">");
    }
    #[cfg(feature = "allsyn")]
    fn visit_generic_declaration_parameter(&mut self, _t: &luau::GenericDeclarationParameter) {
        self.ev("<GParam");
    }
    #[cfg(feature = "allsyn")]
    fn visit_generic_declaration_parameter_end(&mut self, _t: &luau::GenericDeclarationParameter) {
        self.ev(">");
    }
    #[cfg(feature = "allsyn")]
    fn visit_if_expression(&mut self, _t: &luau::IfExpression) {
        self.ev("<IfExpr");
    }
    #[cfg(feature = "allsyn")]
    fn visit_if_expression_end(&mut self, _t: &luau::IfExpression) {
        self.ev(">");
    }
    #[cfg(feature = "allsyn")]
    fn visit_else_if_expression(&mut self, _t: &luau::ElseIfExpression) {
        self.ev("<ElseIfExpr");
    }
    #[cfg(feature = "allsyn")]
    fn visit_else_if_expression_end(&mut self, _t: &luau::ElseIfExpression) {
        self.ev(">");
    }
    #[cfg(feature = "allsyn")]
    fn visit_interpolated_string(&mut self, _t: &luau::InterpolatedString) {
        self.ev("<IStr");
    }
    #[cfg(feature = "allsyn")]
    fn visit_interpolated_string_end(&mut self, _t: &luau::InterpolatedString) {
        self.ev(">");
    }
    #[cfg(feature = "allsyn")]
    fn visit_compound_assignment(&mut self, _t: &luau::CompoundAssignment) {
        self.ev("<Compound");
    }
    #[cfg(feature = "allsyn")]
    fn visit_compound_assignment_end(&mut self, _t: &luau::CompoundAssignment) {
        self.ev(">");
    }
    #[cfg(feature = "allsyn")]
    fn visit_type_declaration(&mut self, _t: &luau::TypeDeclaration) {
        self.ev("<TypeDecl");
    }
    #[cfg(feature = "allsyn")]
    fn visit_type_declaration_end(&mut self, _t: &luau::TypeDeclaration) {
        self.ev(">");
    }
    #[cfg(feature = "allsyn")]
    fn visit_attribute(&mut self, _t: &lua54::Attribute) {
        self.ev("<Attr");
    }
    #[cfg(feature = "allsyn")]
    fn visit_attribute_end(&mut self, _t: &lua54::Attribute) {
        self.ev(">");
    }

    // ---- tokens ----
    fn visit_identifier(&mut self, t: &Token) {
        self.out.push_str("i:");
        self.out.push_str(&t.to_string());
        self.out.push('\x01');
    }
    fn visit_number(&mut self, t: &Token) {
        if let TokenType::Number { text } = t.token_type() {
            let k = crate::val::number_key(text.as_str(), self.intfloat);
            self.out.push_str("n:");
            self.out.push_str(&k);
            self.out.push('\x01');
        }
    }
    fn visit_string_literal(&mut self, t: &Token) {
        if let TokenType::StringLiteral { literal, quote_type, .. } = t.token_type() {
            let v = match quote_type {
                StringLiteralQuoteType::Brackets => crate::val::decode_long(literal.as_bytes()),
                _ => crate::val::decode_quoted(literal.as_bytes(), self.modern),
            };
            self.out.push_str("s:");
            self.out.push_str(&crate::lex::hex(&v));
            self.out.push('\x01');
        }
    }
    fn visit_symbol(&mut self, t: &Token) {
        if self.skip.contains(&t.start_position().bytes()) {
            return;
        }
        self.out.push_str("y:");
        self.out.push_str(&t.to_string());
        self.out.push('\x01');
    }
    #[cfg(feature = "allsyn")]
    fn visit_interpolated_string_segment(&mut self, t: &Token) {
        self.out.push_str("is:");
        self.out.push_str(&crate::lex::hex(t.to_string().as_bytes()));
        self.out.push('\x01');
    }
}

#[allow(dead_code)]
pub fn _unused(_: &dyn Node) {}
