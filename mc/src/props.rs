//! Per-property plans (what is enumerated) and the property-specific oracles.

use crate::cfg::{syntaxes_for, Cfg};
use crate::explore::*;
use crate::gen::{self, Case, Dial};
use std::collections::HashMap;

/// find `needles` in `hay` in order; returns the index of the first needle that cannot be found
fn find_in_order(hay: &str, needles: &[&str]) -> Option<usize> {
    let mut from = 0;
    for (i, n) in needles.iter().enumerate() {
        match hay[from..].find(n) {
            Some(p) => from += p + n.len(),
            None => return Some(i),
        }
    }
    None
}

pub fn check_output_more(t: &TaskCtx, out: &str, oi: &Info, st: &mut Stats, f: &mut Vec<(String, String)>) {
    if t.oracles & O_IGN != 0 {
        c08_oracle(t, out, st, f);
    }
    if t.oracles & O_RANGE != 0 && t.range.is_some() {
        c09_oracle(t, out, oi, st, f);
    }
    if t.oracles & O_SORT != 0 {
        c12_oracle(t, oi, st, f);
    }
    if t.oracles & O_WS != 0 {
        c10_oracle(t, out, oi, st, f);
    }
    if t.oracles & O_OPTS != 0 {
        c11_oracle(t, out, oi, st, f);
    }
}

// ---------------------------------------------------------------------------------------------------- C08
fn c08_oracle(t: &TaskCtx, out: &str, st: &mut Stats, f: &mut Vec<(String, String)>) {
    let text = &t.case.text;
    if !t.case.meta.ignored.is_empty() {
        *st.oracle_evals.entry("ignored-verbatim").or_insert(0) += 1;
        let needles: Vec<&str> = t.case.meta.ignored.iter().map(|(a, b)| &text[*a..*b]).collect();
        if let Some(i) = find_in_order(out, &needles) {
            f.push(("ignored-changed".into(), format!("ignored node {:?} does not occur verbatim (in order) in the output", needles[i])));
        }
    }
    // "everything else is still formatted": every line of each non-ignored statement formatted on its own must occur
    // (modulo indentation) in the output, in order. Judged at the wide representative only (no wrapping interplay).
    if t.is_wide.get() && !t.case.meta.others.is_empty() {
        *st.oracle_evals.entry("others-formatted").or_insert(0) += 1;
        // (a `;` may be added or removed depending on the neighbouring statement: not part of this comparison)
        let norm = |l: &str| l.trim().replace(" ;", "").replace(';', "");
        let out_lines: Vec<String> = out.lines().map(norm).collect();
        let mut from = 0;
        for o in &t.case.meta.others {
            let (fo, _) = run_format(&format!("{}\n", o), t.cfg, usize::MAX - 1, None);
            if let Out::Ok(ft) = fo {
                for l in ft.lines().map(norm).filter(|l| !l.is_empty()) {
                    match out_lines[from..].iter().position(|x| *x == l) {
                        Some(p) => from += p + 1,
                        None => {
                            f.push(("not-formatted".into(), format!("statement {:?} next to an ignored one is not formatted (expected line {:?})", o, l)));
                            return;
                        }
                    }
                }
            }
        }
    }
}

// ---------------------------------------------------------------------------------------------------- C11
#[derive(Clone, Debug, PartialEq)]
enum ArgForm {
    Str,
    Table,
    /// parenthesised list: number of arguments, single argument (after erasing redundant parentheses) is a string / table
    Paren { n: usize, single_str: bool, single_table: bool },
}
struct CallSite {
    form: ArgForm,
    /// the next suffix is an index or a method call
    obscure: bool,
    has_comment: bool,
    /// byte offset of the opening parenthesis (if any)
    paren_at: Option<usize>,
}
struct Calls {
    sites: Vec<CallSite>,
    def_parens: Vec<usize>,
}
fn tok_has_comment(t: &full_moon::tokenizer::TokenReference) -> bool {
    t.leading_trivia().chain(t.trailing_trivia()).any(|x| {
        matches!(x.token_kind(), full_moon::tokenizer::TokenKind::SingleLineComment | full_moon::tokenizer::TokenKind::MultiLineComment)
    })
}
fn strip_parens(e: &full_moon::ast::Expression) -> &full_moon::ast::Expression {
    match e {
        full_moon::ast::Expression::Parentheses { expression, .. } => strip_parens(expression),
        _ => e,
    }
}
impl Calls {
    fn args(&mut self, a: &full_moon::ast::FunctionArgs, obscure: bool) {
        use full_moon::ast::{Expression, FunctionArgs};
        let site = match a {
            FunctionArgs::String(t) => CallSite { form: ArgForm::Str, obscure, has_comment: tok_has_comment(t), paren_at: None },
            FunctionArgs::TableConstructor(_) => CallSite { form: ArgForm::Table, obscure, has_comment: false, paren_at: None },
            FunctionArgs::Parentheses { parentheses, arguments } => {
                let (o, c) = parentheses.tokens();
                let single = if arguments.len() == 1 { arguments.iter().next() } else { None };
                let mut has_comment = tok_has_comment(o) || tok_has_comment(c);
                if let Some(e) = single {
                    // a comment between the parentheses and the single argument (in front of its first or behind its last
                    // token): not judged. A comment INSIDE a table argument has nothing to do with the call parentheses.
                    let (lead, trail) = e.surrounding_trivia();
                    let is_comment = |x: &&full_moon::tokenizer::Token| matches!(x.token_kind(), full_moon::tokenizer::TokenKind::SingleLineComment | full_moon::tokenizer::TokenKind::MultiLineComment);
                    if lead.iter().any(|x| is_comment(x)) || trail.iter().any(|x| is_comment(x)) {
                        has_comment = true;
                    }
                }
                CallSite {
                    form: ArgForm::Paren {
                        n: arguments.len(),
                        single_str: single.map_or(false, |e| matches!(strip_parens(e), Expression::String(_))),
                        single_table: single.map_or(false, |e| matches!(strip_parens(e), Expression::TableConstructor(_))),
                    },
                    obscure,
                    has_comment,
                    paren_at: Some(o.token().start_position().bytes()),
                }
            }
            _ => return,
        };
        self.sites.push(site);
    }
}
impl full_moon::visitors::Visitor for Calls {
    fn visit_function_call(&mut self, fc: &full_moon::ast::FunctionCall) {
        use full_moon::ast::{Call, Suffix};
        let sfx: Vec<&Suffix> = fc.suffixes().collect();
        for (i, s) in sfx.iter().enumerate() {
            let obscure = match sfx.get(i + 1) {
                Some(Suffix::Index(_)) => true,
                Some(Suffix::Call(Call::MethodCall(_))) => true,
                _ => false,
            };
            match s {
                Suffix::Call(Call::AnonymousCall(a)) => self.args(a, obscure),
                Suffix::Call(Call::MethodCall(m)) => self.args(m.args(), obscure),
                _ => {}
            }
        }
    }
    fn visit_function_body(&mut self, b: &full_moon::ast::FunctionBody) {
        self.def_parens.push(b.parameters_parentheses().tokens().0.token().start_position().bytes());
    }
}

fn c11_oracle(t: &TaskCtx, out: &str, oi: &Info, st: &mut Stats, f: &mut Vec<(String, String)>) {
    use full_moon::visitors::Visitor;
    let (Some(oast), Some(lexed)) = (&oi.ast, &oi.lexed) else { return };
    // ---- quote_style: every quoted string token of the output
    *st.oracle_evals.entry("quote-style").or_insert(0) += 1;
    for (tok, a, _) in &lexed.toks {
        if let crate::lex::Tok::Str { quote, body } = tok {
            let s = body.iter().filter(|c| **c == b'\'').count();
            let d = body.iter().filter(|c| **c == b'"').count();
            let want = match t.cfg.qs {
                2 => b'"',
                3 => b'\'',
                0 => if d > s { b'\'' } else { b'"' },
                _ => if s > d { b'"' } else { b'\'' },
            };
            if *quote != want {
                f.push(("quote-style".into(), format!("string at byte {} uses {} under {} ({} single / {} double quotes inside)", a, *quote as char, crate::cfg::QS_NAMES[t.cfg.qs as usize], s, d)));
                break;
            }
        }
    }
    // ---- call_parentheses
    let mut oc = Calls { sites: vec![], def_parens: vec![] };
    oc.visit_ast(oast);
    *st.oracle_evals.entry("call-parentheses").or_insert(0) += 1;
    let omit_str = t.cfg.ncp || matches!(t.cfg.cp, 1 | 3);
    let omit_tab = t.cfg.ncp || matches!(t.cfg.cp, 2 | 3);
    if t.cfg.cp == 4 && !t.cfg.ncp {
        if let Some(iast) = &t.input.ast {
            let mut ic = Calls { sites: vec![], def_parens: vec![] };
            ic.visit_ast(iast);
            let kind = |s: &CallSite| match s.form {
                ArgForm::Str => 0,
                ArgForm::Table => 1,
                ArgForm::Paren { .. } => 2,
            };
            let a: Vec<i32> = ic.sites.iter().map(kind).collect();
            let b: Vec<i32> = oc.sites.iter().map(kind).collect();
            if a != b {
                f.push(("call-form-not-kept".into(), format!("call_parentheses = Input but the call forms changed: {:?} -> {:?} (0 string, 1 table, 2 parentheses)", a, b)));
            }
        }
    } else {
        for s in &oc.sites {
            if s.has_comment {
                continue;
            }
            match &s.form {
                // "... have none UNLESS an index or method call follows": read as the documented behaviour, i.e. when
                // one follows the parentheses are there (`require("x").y`, never `require "x".y`)
                ArgForm::Str | ArgForm::Table if s.obscure => {
                    f.push(("call-without-parentheses-before-index".into(), "a call without parentheses is directly followed by an index / method call".into()));
                    break;
                }
                ArgForm::Str if !omit_str => {
                    f.push(("call-without-parentheses".into(), "a string call without parentheses although the option does not omit them".into()));
                    break;
                }
                ArgForm::Table if !omit_tab => {
                    f.push(("call-without-parentheses".into(), "a table call without parentheses although the option does not omit them".into()));
                    break;
                }
                ArgForm::Paren { n: 1, single_str: true, .. } if omit_str && !s.obscure => {
                    f.push(("call-with-parentheses".into(), "a single string argument keeps its parentheses although the option omits them and no index / method call follows".into()));
                    break;
                }
                ArgForm::Paren { n: 1, single_table: true, .. } if omit_tab && !s.obscure => {
                    f.push(("call-with-parentheses".into(), "a single table argument keeps its parentheses although the option omits them and no index / method call follows".into()));
                    break;
                }
                _ => {}
            }
        }
    }
    // ---- space_after_function_names: only where a NAME directly precedes the parenthesis
    *st.oracle_evals.entry("space-after-function-names").or_insert(0) += 1;
    let prev_tok = |at: usize| lexed.toks.iter().rev().find(|(_, _, e)| *e <= at);
    let kw = ["function", "end", "return", "and", "or", "not", "if", "then", "else", "elseif", "while", "do", "until", "in", "local", "repeat", "for"];
    let mut check = |at: usize, want_space: bool, what: &str, f: &mut Vec<(String, String)>| {
        if let Some((crate::lex::Tok::Word(w), _, e)) = prev_tok(at) {
            if kw.contains(&w.as_str()) {
                return;
            }
            let gap = &out[*e..at];
            if gap.contains('\n') || gap.contains("--") {
                return;
            }
            let ok = if want_space { gap == " " } else { gap.is_empty() };
            if !ok && f.iter().all(|x| x.0 != "function-name-space") {
                f.push(("function-name-space".into(), format!("{} `{}`: gap before `(` is {:?} under {}", what, w, gap, crate::cfg::SAFN_NAMES[t.cfg.safn as usize])));
            }
        }
    };
    for s in &oc.sites {
        if let Some(at) = s.paren_at {
            check(at, matches!(t.cfg.safn, 2 | 3), "call of", f);
        }
    }
    for at in &oc.def_parens {
        check(*at, matches!(t.cfg.safn, 1 | 3), "definition of", f);
    }
}

// ---------------------------------------------------------------------------------------------------- C10
fn c10_oracle(t: &TaskCtx, out: &str, oi: &Info, st: &mut Stats, f: &mut Vec<(String, String)>) {
    let Some(lexed) = &oi.lexed else { return };
    *st.oracle_evals.entry("whitespace").or_insert(0) += 1;
    let b = out.as_bytes();
    // mask: bytes inside string literal tokens; comment interiors are remembered separately
    let mut in_str = vec![false; b.len()];
    for (tok, a, e) in &lexed.toks {
        if matches!(tok, crate::lex::Tok::Str { .. } | crate::lex::Tok::LongStr { .. } | crate::lex::Tok::Interp(_)) {
            for x in in_str[*a..*e].iter_mut() {
                *x = true;
            }
        }
    }
    let mut in_comment = vec![false; b.len()];
    for (c, a, e) in &lexed.comments {
        if matches!(c, crate::lex::Comment::Block { .. }) {
            for x in in_comment[(*a + 1).min(*e)..*e].iter_mut() {
                *x = true;
            }
        }
    }
    // ignored nodes (and the directive comments) are copied verbatim: their bytes, located in order in the output, are exempt.
    // If one cannot be located the case is C08's business, not this oracle's.
    if !t.case.meta.ignored.is_empty() {
        let mut from = 0;
        for (a, e) in &t.case.meta.ignored {
            let needle = &t.case.text[*a..*e];
            match out[from..].find(needle) {
                Some(k) => {
                    // the whole lines the node occupies (its own indentation and line terminator are the input's)
                    let mut s0 = out[..from + k].rfind('\n').map(|x| x + 1).unwrap_or(0);
                    // the directive comment in front of the node is leading trivia of the ignored node: verbatim as well
                    if s0 > 0 {
                        let p0 = out[..s0 - 1].rfind('\n').map(|x| x + 1).unwrap_or(0);
                        if out[p0..s0].contains("stylua: ignore") {
                            s0 = p0;
                        }
                    }
                    let e0 = out[from + k + needle.len()..].find('\n').map(|x| from + k + needle.len() + x + 1).unwrap_or(out.len());
                    for x in in_str[s0..e0].iter_mut() {
                        *x = true;
                    }
                    from += k + needle.len();
                }
                None => return,
            }
        }
    }
    let windows = t.cfg.le == 1;
    for i in 0..b.len() {
        if in_str[i] {
            continue;
        }
        if b[i] == b'\n' {
            let crlf = i > 0 && b[i - 1] == b'\r';
            if windows && !crlf {
                f.push(("line-ending".into(), format!("bare LF at byte {} although line_endings = Windows", i)));
                return;
            }
            if !windows && crlf {
                f.push(("line-ending".into(), format!("CRLF at byte {} although line_endings = Unix", i)));
                return;
            }
        } else if b[i] == b'\r' && b.get(i + 1) != Some(&b'\n') {
            f.push(("line-ending".into(), format!("lone carriage return at byte {}", i)));
            return;
        } else if b[i] == b'\r' && windows && i > 0 && b[i - 1] == b'\r' {
            f.push(("line-ending".into(), format!("doubled carriage return at byte {}", i)));
            return;
        }
    }
    // leading whitespace of every line that starts outside strings and comment interiors
    let mut p = 0;
    while p < b.len() {
        if !in_str[p] && !in_comment[p] {
            let mut q = p;
            while q < b.len() && (b[q] == b' ' || b[q] == b'\t') {
                q += 1;
            }
            let ws = &b[p..q];
            let blank = q >= b.len() || b[q] == b'\n' || b[q] == b'\r';
            if !blank || !ws.is_empty() {
                let ok = if t.cfg.it == 0 { ws.iter().all(|c| *c == b'\t') } else { ws.iter().all(|c| *c == b' ') && ws.len() % t.cfg.iw == 0 };
                if !ok {
                    f.push(("indentation".into(), format!("line starting at byte {} is indented with {:?}", p, String::from_utf8_lossy(ws))));
                    return;
                }
            }
        }
        match b[p..].iter().position(|c| *c == b'\n') {
            Some(k) => p += k + 1,
            None => break,
        }
    }
    // end of file (only when the end of the file is formatted, i.e. no range)
    if t.range.is_none() && !out.is_empty() {
        let le = if windows { "\r\n" } else { "\n" };
        if !out.ends_with(le) {
            f.push(("eof".into(), "non-empty output does not end with the configured line ending".into()));
        } else {
            let body = &out[..out.len() - le.len()];
            if body.ends_with('\n') || body.ends_with('\r') {
                // a string / comment ending the file with its own line break cannot occur: tokens end before it
                f.push(("eof".into(), "output ends with more than one line ending".into()));
            }
        }
    }
}

// ---------------------------------------------------------------------------------------------------- C12
fn stmt_slices(nf: &str, starts: &[usize]) -> Vec<String> {
    let mut v = vec![];
    for (i, s) in starts.iter().enumerate() {
        let e = if i + 1 < starts.len() { starts[i + 1] } else { nf.len() };
        // the last slice carries the closing events of the chunk; cut at the matching close of the statement
        let sl = &nf[*s..e];
        v.push(cut_balanced(sl).to_string());
    }
    v
}
fn cut_balanced(sl: &str) -> &str {
    // events are separated by \x01; the slice starts with "<Stmt" or "<Last": cut after its matching ">"
    let mut depth = 0i32;
    let mut pos = 0;
    for ev in sl.split('\x01') {
        let l = ev.len() + 1;
        if ev.starts_with('<') {
            depth += 1;
        } else if ev == ">" {
            depth -= 1;
            if depth == 0 {
                return &sl[..(pos + l).min(sl.len())];
            }
        }
        pos += l;
    }
    sl
}

fn c12_oracle(t: &TaskCtx, oi: &Info, st: &mut Stats, f: &mut Vec<(String, String)>) {
    use gen::{ReqKind, Sep};
    let items = &t.case.meta.req;
    if items.is_empty() {
        return;
    }
    *st.oracle_evals.entry("require-order").or_insert(0) += 1;
    let inp = stmt_slices(&t.input.nf, &t.input.stmt_starts);
    let outp = stmt_slices(&oi.nf, &oi.stmt_starts);
    if inp.len() != items.len() {
        *st.machinery.entry("F-REQ: generator statement count != parser statement count (case skipped)".into()).or_insert(0) += 1;
        return;
    }
    if !t.cfg.sort {
        if inp != outp {
            f.push(("order-changed-with-sorting-off".into(), "statement order / content changed although sort_requires is off".into()));
        }
        return;
    }
    let mut a = inp.clone();
    let mut b = outp.clone();
    a.sort();
    b.sort();
    if a != b {
        f.push(("not-a-permutation".into(), "the output statements are not a permutation of the input statements".into()));
        return;
    }
    // maximal runs: consecutive require-kind statements of one kind with no blank line / other statement between
    let n = items.len();
    let mut i = 0;
    while i < n {
        if items[i].kind == ReqKind::Other {
            if outp[i] != inp[i] {
                f.push(("non-require-moved".into(), format!("statement {} is not a require and must keep its place", i)));
                return;
            }
            i += 1;
            continue;
        }
        let mut j = i + 1;
        while j < n && items[j].kind == items[i].kind && items[j].sep_before != Sep::Blank {
            j += 1;
        }
        // run = i..j
        let mut x: Vec<&String> = inp[i..j].iter().collect();
        let mut y: Vec<&String> = outp[i..j].iter().collect();
        x.sort();
        y.sort();
        if x != y {
            f.push(("moved-across-groups".into(), format!("statements {}..{} form one require block; its members left it or others entered", i, j)));
            return;
        }
        // acceptable results: comment lines split the block (A) or do not (B)
        let sorted = |lo: usize, hi: usize| -> Vec<String> {
            if items[lo..hi].iter().any(|it| it.ignored) {
                return inp[lo..hi].to_vec();
            }
            let mut idx: Vec<usize> = (lo..hi).collect();
            idx.sort_by(|p, q| items[*p].name.as_bytes().cmp(items[*q].name.as_bytes()));
            idx.into_iter().map(|k| inp[k].clone()).collect()
        };
        let b_res = sorted(i, j);
        let mut a_res: Vec<String> = vec![];
        let mut lo = i;
        for k in (i + 1)..=j {
            if k == j || items[k].sep_before == Sep::Comment {
                a_res.extend(sorted(lo, k));
                lo = k;
            }
        }
        let got = &outp[i..j];
        if got != a_res.as_slice() && got != b_res.as_slice() {
            f.push((
                "group-not-sorted".into(),
                format!("require block {}..{} is neither sorted by name (stable) nor left alone as the rule demands", i, j),
            ));
            return;
        }
        i = j;
    }
}

// ---------------------------------------------------------------------------------------------------- C09
use full_moon::node::Node;
struct StmtSpans {
    /// (start of first token, end of last token, end including `;`, depth); depth >= 1000 marks a statement that is reached
    /// through an expression (the body of an anonymous function in an argument list, table, right-hand side ...)
    v: Vec<(usize, usize, usize, usize)>,
    depth: usize,
    expr: usize,
}
impl full_moon::visitors::Visitor for StmtSpans {
    fn visit_expression(&mut self, _e: &full_moon::ast::Expression) {
        self.expr += 1;
        if self.expr == 1 {
            self.depth += 1000;
        }
    }
    fn visit_expression_end(&mut self, _e: &full_moon::ast::Expression) {
        if self.expr == 1 {
            self.depth -= 1000;
        }
        self.expr -= 1;
    }
    fn visit_block(&mut self, b: &full_moon::ast::Block) {
        self.depth += 1;
        for (s, semi) in b.stmts_with_semicolon() {
            if let (Some(a), Some(e)) = (s.start_position(), s.end_position()) {
                let e2 = semi.as_ref().and_then(|x| x.token().end_position().bytes().into()).unwrap_or(e.bytes());
                self.v.push((a.bytes(), e.bytes(), e2.max(e.bytes()), self.depth));
            }
        }
        if let Some((s, semi)) = b.last_stmt_with_semicolon() {
            if let (Some(a), Some(e)) = (s.start_position(), s.end_position()) {
                let e2 = semi.as_ref().map(|x| x.token().end_position().bytes()).unwrap_or(e.bytes());
                self.v.push((a.bytes(), e.bytes(), e2.max(e.bytes()), self.depth));
            }
        }
    }
    fn visit_block_end(&mut self, _b: &full_moon::ast::Block) {
        self.depth -= 1;
    }
}

fn stmt_spans(ast: &full_moon::ast::Ast) -> Vec<(usize, usize, usize, usize)> {
    use full_moon::visitors::Visitor;
    let mut s = StmtSpans { v: vec![], depth: 0, expr: 0 };
    s.visit_ast(ast);
    s.v
}

fn c09_oracle(t: &TaskCtx, out: &str, oi: &Info, st: &mut Stats, f: &mut Vec<(String, String)>) {
    let text = &t.case.text;
    let (rs, re) = t.range.unwrap();
    let s = rs.unwrap_or(0);
    let e = re.unwrap_or(usize::MAX);
    let (Some(ast), Some(lexed)) = (&t.input.ast, &t.input.lexed) else { return };
    let spans = stmt_spans(ast);
    // the code's rule: inside iff first token starts at or after s and last token ends at or before e;
    // a statement whose last byte is exactly e (end == e+1) is accepted either way
    let inside = |a: usize, b: usize| a >= s && b <= e;
    let ambiguous = |a: usize, b: usize| a >= s && e != usize::MAX && b == e + 1;
    let covered: Vec<(usize, usize)> = spans.iter().filter(|(a, b, _, _)| inside(*a, *b) || ambiguous(*a, *b)).map(|(a, _, b2, _)| (*a, *b2)).collect();
    *st.oracle_evals.entry("range-outside-preserved").or_insert(0) += 1;
    // items (code tokens and comments) in source order
    let mut items: Vec<(usize, usize, bool)> = lexed.toks.iter().map(|(_, a, b)| (*a, *b, false)).collect();
    items.extend(lexed.comments.iter().map(|(_, a, b)| (*a, *b, true)));
    items.sort();
    let is_cov = |a: usize, b: usize| covered.iter().any(|(ca, cb)| a >= *ca && b <= *cb);
    // maximal runs of uncovered items; comments at the edges of a run may be trivia of a covered statement: drop them
    let mut pieces: Vec<(usize, usize)> = vec![];
    let mut run: Vec<(usize, usize, bool)> = vec![];
    let flush = |run: &mut Vec<(usize, usize, bool)>, pieces: &mut Vec<(usize, usize)>, at_start: bool, at_end: bool| {
        let mut lo = 0;
        let mut hi = run.len();
        if !at_start {
            while lo < hi && run[lo].2 {
                lo += 1;
            }
        }
        if !at_end {
            while hi > lo && run[hi - 1].2 {
                hi -= 1;
            }
        }
        if lo < hi {
            pieces.push((run[lo].0, run[hi - 1].1));
        }
        run.clear();
    };
    let mut seen_cov = false;
    for (a, b, c) in &items {
        if is_cov(*a, *b) {
            let first = !seen_cov;
            flush(&mut run, &mut pieces, first, false);
            seen_cov = true;
        } else {
            run.push((*a, *b, *c));
        }
    }
    // trailing comments before EOF belong to the EOF token, which may itself be in range: drop them as well
    let first = !seen_cov;
    flush(&mut run, &mut pieces, first, false);
    let needles: Vec<&str> = pieces.iter().map(|(a, b)| &text[*a..*b]).collect();
    if let Some(i) = find_in_order(out, &needles) {
        f.push((
            "outside-range-changed".into(),
            format!("text outside the range was changed: {:?} no longer occurs", needles[i].chars().take(80).collect::<String>()),
        ));
        return;
    }
    // if nothing at all is covered the prefix up to the last code token must be byte-identical
    if covered.is_empty() {
        if let Some((_, _, b)) = lexed.toks.last() {
            if !out.starts_with(&text[..*b]) {
                f.push(("outside-range-changed".into(), "no statement lies inside the range, yet the text before the last token changed".into()));
                return;
            }
        }
    }
    // statements wholly inside come out exactly as when the whole file is formatted. Statements of every depth are compared
    // (the three trees list their statements in the same order as long as the statement structure is the same); a statement
    // nested in another covered statement is part of that one's text, so only the outermost covered statements are taken.
    // The comparison includes the indentation in front of a statement that starts its line.
    let all_in: Vec<usize> = (0..spans.len())
        .filter(|i| inside(spans[*i].0, spans[*i].1))
        .filter(|i| !(0..spans.len()).any(|j| j != *i && inside(spans[j].0, spans[j].1) && spans[j].0 <= spans[*i].0 && spans[j].1 >= spans[*i].1 && (spans[j].0, spans[j].1) != (spans[*i].0, spans[*i].1)))
        .collect();
    if all_in.is_empty() || t.cfg.sort {
        // (with require sorting the whole-file run may reorder statements: no index-wise comparison then)
        return;
    }
    let (whole, _) = run_format(text, t.cfg, t.cur_width.get(), None);
    let Out::Ok(whole) = whole else { return };
    let wi = analyse(&whole, t.cfg.syn, true);
    let (Some(wast), Some(oast)) = (&wi.ast, &oi.ast) else { return };
    let ws = stmt_spans(wast);
    let os = stmt_spans(oast);
    let same_shape = |x: &Vec<(usize, usize, usize, usize)>| x.len() == spans.len() && (0..spans.len()).all(|i| x[i].3 == spans[i].3);
    if !same_shape(&ws) {
        return; // the whole-file run itself changes the statement structure: C02's business
    }
    if !same_shape(&os) {
        // the whole-file run keeps the statements apart, the range run merges / splits some: a statement inside the range
        // did not come out as in the whole-file run (typically a `;` that the neighbour outside the range still needs)
        f.push(("inside-range-differs".into(), format!("the range run changes the statement structure ({} statements instead of {}), the whole-file run does not", os.len(), spans.len())));
        return;
    }
    *st.oracle_evals.entry("range-inside-as-whole-file").or_insert(0) += 1;
    // start of the line if only blanks precede the statement on it, else the statement's own start
    let from = |txt: &str, at: usize| -> usize {
        let ls = txt[..at].rfind('\n').map(|x| x + 1).unwrap_or(0);
        if txt[ls..at].chars().all(|c| c == ' ' || c == '\t') {
            ls
        } else {
            at
        }
    };
    for i in all_in {
        let top = spans[i].3 == 1;
        // (indentation of a nested statement is compared too; a top-level one has none)
        // ... unless the statement shares its line with out-of-range text in front of it (in either output)
        // ... and unless it is reached through an expression: the indentation of a function body inside an argument list or
        // a table depends on how the enclosing (unformatted) construct happens to be laid out
        let top = top || spans[i].3 >= 1000;
        let starts_line = |txt: &str, at: usize| -> bool {
            let ls = txt[..at].rfind('\n').map(|x| x + 1).unwrap_or(0);
            txt[ls..at].chars().all(|c| c == ' ' || c == '\t')
        };
        let with_indent = !top && starts_line(&whole, ws[i].0) && starts_line(out, os[i].0);
        let a = if with_indent { &whole[from(&whole, ws[i].0)..ws[i].2] } else { &whole[ws[i].0..ws[i].2] };
        let b = if with_indent { &out[from(out, os[i].0)..os[i].2] } else { &out[os[i].0..os[i].2] };
        if a != b {
            // a statement that needs its `;` only because of its (unformatted) neighbour may differ in that `;`
            if a.trim_end_matches(';') == b.trim_end_matches(';') {
                continue;
            }
            f.push(("inside-range-differs".into(), format!("statement inside the range is formatted differently from the whole-file run: {:?} vs {:?}", b, a)));
            return;
        }
    }
}

pub fn check_range_task(
    _t: &TaskCtx,
    _outputs: &HashMap<String, usize>,
    _st: &mut Stats,
    _fails: &mut Vec<Failure>,
    _seen: &mut HashMap<String, usize>,
) {
}

fn syn_cfgs(thorough: bool) -> impl Fn(&Case) -> Vec<Cfg> + Sync {
    move |c: &Case| syntaxes_for(c.dial, thorough).into_iter().map(|s| Cfg::default().with_syn(s)).collect()
}

/// cross product helper: for every syntax of the case, every cfg produced by `f`
fn cross(thorough_syn: bool, f: impl Fn(Cfg) -> Vec<Cfg> + Sync + 'static) -> Box<dyn Fn(&Case) -> Vec<Cfg> + Sync> {
    Box::new(move |c: &Case| {
        let mut v = vec![];
        for s in syntaxes_for(c.dial, thorough_syn) {
            v.extend(f(Cfg::default().with_syn(s)));
        }
        v
    })
}

/// all-singles sweep around the default: every option one value at a time
pub fn singles(base: Cfg) -> Vec<Cfg> {
    let mut v = vec![base];
    for le in 1..2 {
        v.push(Cfg { le, ..base });
    }
    v.push(Cfg { it: 1, ..base });
    v.push(Cfg { it: 1, iw: 2, ..base });
    for qs in 1..4 {
        v.push(Cfg { qs, ..base });
    }
    for cp in 1..5 {
        v.push(Cfg { cp, ..base });
    }
    for cs in 1..4 {
        v.push(Cfg { cs, ..base });
    }
    for safn in 1..4 {
        v.push(Cfg { safn, ..base });
    }
    v.push(Cfg { sort: true, ..base });
    v.push(Cfg { ncp: true, ..base });
    v
}

fn call_collapse(base: Cfg) -> Vec<Cfg> {
    let mut v = vec![];
    for cp in [0u8, 3, 4] {
        for cs in [0u8, 3] {
            v.push(Cfg { cp, cs, ..base });
        }
    }
    v
}

pub fn only_dials(cases: Vec<Case>, dials: &[Dial]) -> Vec<Case> {
    cases.into_iter().filter(|c| dials.contains(&c.dial)).collect()
}

pub fn trivia_family(bases: &[Case], kinds: &[usize]) -> Vec<Case> {
    let mut v = vec![];
    for b in bases {
        v.extend(gen::trivia_variants(b, kinds, "F-TRIVIA"));
    }
    v
}

pub fn plans_for(prop: &str, thorough: bool) -> Vec<Plan> {
    let mut plans: Vec<Plan> = vec![];
    let stmt = gen::f_stmt();
    let stmt_long = gen::f_stmt_long();
    match prop {
        "C01" | "C02" | "C06" | "C07" => {
            let o = match prop {
                "C01" => O_PARSE,
                "C02" => O_NF,
                "C06" => O_IDEM,
                _ => O_TOTAL,
            };
            let mut base = stmt.clone();
            base.extend(stmt_long.clone());
            plans.push(Plan {
                name: "F-STMT x singles x all widths",
                cases: base.clone(),
                cfgs: cross(thorough, singles),
                widths: Widths::All,
                ranges: Ranges::None,
                oracles: o,
                u_cap: 400,
            });
            plans.push(Plan {
                name: "F-EXPR x all widths",
                cases: gen::f_expr(thorough),
                cfgs: Box::new(syn_cfgs(false)),
                widths: Widths::All,
                ranges: Ranges::None,
                oracles: o,
                u_cap: 400,
            });
            plans.push(Plan {
                name: "F-TRIVIA(1) on F-STMT x call_parentheses x collapse x all widths",
                cases: trivia_family(&stmt, if thorough { &[0, 1, 2, 3, 4, 5, 6, 7] } else { &[0, 1, 5] }),
                cfgs: cross(false, call_collapse),
                widths: Widths::All,
                ranges: Ranges::None,
                oracles: o,
                u_cap: 400,
            });
            plans.push(Plan {
                name: "F-NEST (catalogue statements inside every enclosing construct) + F-ARGS + F-TABLE + F-CALL x call_parentheses x collapse x all widths",
                cases: {
                    let mut v = gen::f_nest(if thorough { 1 } else { 9 });
                    v.extend(gen::f_args(if thorough { 3 } else { 2 }, if thorough { 1 } else { 3 }));
                    v.extend(gen::f_table(if thorough { 3 } else { 2 }, if thorough { 1 } else { 5 }));
                    if thorough {
                        v.extend(gen::f_call(false));
                    } else {
                        v.extend(gen::f_call(false).into_iter().enumerate().filter(|(i, _)| i % 4 == 0).map(|(_, c)| c));
                    }
                    v
                },
                cfgs: cross(false, if thorough { call_collapse } else { |b| vec![b, Cfg { cp: 3, cs: 3, ..b }] }),
                widths: Widths::All,
                ranges: Ranges::None,
                oracles: o,
                u_cap: 400,
            });
            plans.push(Plan {
                name: "F-TYPE (Luau unions / intersections, one special member at a time, every type position) x all widths",
                cases: gen::f_type(thorough),
                cfgs: Box::new(syn_cfgs(false)),
                widths: Widths::All,
                ranges: Ranges::None,
                oracles: o,
                u_cap: 400,
            });
            if prop == "C01" {
                plans.push(Plan {
                    name: "F-PACKDEFAULT (Luau generic type packs with a default type pack) x all widths",
                    cases: gen::f_packdefault(),
                    cfgs: Box::new(syn_cfgs(false)),
                    widths: Widths::All,
                    ranges: Ranges::None,
                    oracles: o,
                    u_cap: 400,
                });
            }
            if prop == "C06" {
                plans.push(Plan {
                    name: "F-GUARDCALL (guards and one-line functions around a call without parentheses) + F-ARGBLANK (an empty line in front of a call argument) x call_parentheses x collapse, column widths 80 and 120 only",
                    cases: {
                        let mut v = gen::f_guardcall();
                        v.extend(gen::f_argblank());
                        v
                    },
                    cfgs: cross(false, |b| {
                        let mut v = vec![];
                        for cp in [0u8, 3, 4] {
                            for cs in 0..4u8 {
                                v.push(Cfg { cp, cs, ..b });
                            }
                        }
                        v
                    }),
                    widths: Widths::Fixed(&[80, 120]),
                    ranges: Ranges::None,
                    oracles: o,
                    u_cap: 400,
                });
            }
            if prop == "C02" {
                plans.push(Plan {
                    name: "F-ACCESS (Luau read / write access modifiers of array types and table-type fields, every type position) x all widths",
                    cases: gen::f_access(),
                    cfgs: Box::new(syn_cfgs(false)),
                    widths: Widths::All,
                    ranges: Ranges::None,
                    oracles: o,
                    u_cap: 400,
                });
            }
            plans.push(Plan {
                name: "F-WS renderings + F-IGN + F-REQ (sort on)",
                cases: {
                    let mut v: Vec<Case> = gen::f_ws_files();
                    for (i, b) in stmt.iter().enumerate() {
                        if thorough || i % 3 == 0 {
                            v.extend(gen::ws_variants(b, thorough));
                        }
                    }
                    v.extend(gen::f_ign(false).into_iter().enumerate().filter(|(i, _)| thorough || i % 5 == 0).map(|(_, c)| c));
                    v
                },
                cfgs: cross(false, |b| vec![b, Cfg { le: 1, it: 1, iw: 2, ..b }]),
                widths: Widths::All,
                ranges: Ranges::None,
                oracles: o,
                u_cap: 400,
            });
            if prop != "C02" {
                plans.push(Plan {
                    name: "F-REQ with sort_requires on",
                    cases: gen::f_req(if thorough { 4 } else { 3 }, false).into_iter().enumerate().filter(|(i, _)| thorough || i % 4 == 0).map(|(_, c)| c).collect(),
                    cfgs: cross(false, |b| vec![Cfg { sort: true, ..b }]),
                    widths: Widths::Classes,
                    ranges: Ranges::None,
                    oracles: o,
                    u_cap: 400,
                });
            }
            plans.push(Plan {
                name: "F-STR + F-NUM x quote_style x line_endings",
                cases: {
                    let mut v = if thorough { gen::f_str(4, 5, 2) } else { gen::f_str(3, 4, 1) };
                    v.extend(gen::f_num());
                    v
                },
                cfgs: Box::new(|_c: &Case| {
                    let mut v = vec![];
                    let syns: Vec<crate::cfg::Syn> =
                        if cfg!(feature = "allsyn") { vec![crate::cfg::Syn::Lua51, crate::cfg::Syn::Luau, crate::cfg::Syn::All] } else { vec![crate::cfg::Syn::Lua51, crate::cfg::Syn::All] };
                    for syn in syns {
                        for qs in [0u8, 1, 3] {
                            for le in 0..2u8 {
                                v.push(Cfg { qs, le, ..Cfg::default().with_syn(syn) });
                            }
                        }
                    }
                    v
                }),
                widths: Widths::Wide,
                ranges: Ranges::None,
                oracles: o,
                u_cap: 400,
            });
            plans.push(Plan {
                name: "F-SEQ x all widths",
                cases: gen::f_seq(if thorough { 3 } else { 2 }, false),
                cfgs: cross(false, |b| vec![b, Cfg { cs: 3, ..b }]),
                widths: Widths::Classes,
                ranges: Ranges::None,
                oracles: o,
                u_cap: 400,
            });
            if prop == "C01" || prop == "C02" {
                // "with or without a formatting range": the C09 space under this property's oracle
                let mut cases = gen::f_seq(2, false);
                cases = cases.into_iter().enumerate().filter(|(i, _)| thorough && i % 9 == 0 || i % 97 == 0).map(|(_, c)| c).collect();
                cases.extend(only_dials(stmt.clone(), &[Dial::Core]).into_iter().filter(|c| c.text.contains("end") || c.text.contains('{') || c.text.contains(';')));
                plans.push(Plan {
                    name: "F-SEQ + block statements x every pair of range points x width classes",
                    cases,
                    cfgs: cross(false, |b| vec![b, Cfg { cs: 3, ..b }]),
                    widths: Widths::Classes,
                    ranges: Ranges::TokenPoints,
                    oracles: o,
                    u_cap: 400,
                });
            }
            if prop == "C07" {
                // invalid inputs: truncations and single-token splices
                let mut muts = vec![];
                for b in base.iter().filter(|c| c.fam == "F-STMT") {
                    muts.extend(gen::token_mutants(b));
                }
                plans.push(Plan {
                    name: "F-MUT (every token-boundary prefix, token deletion / duplication / swap of the catalogue)",
                    cases: muts,
                    cfgs: cross(thorough, |b| vec![b, Cfg { cs: 3, sort: true, ..b }]),
                    widths: Widths::Classes,
                    ranges: Ranges::None,
                    oracles: O_TOTAL,
                    u_cap: 400,
                });
                // every dialect-specific statement under EVERY syntax: the answer must be Ok or a parse error, never a panic
                plans.push(Plan {
                    name: "dialect-specific statements x all syntaxes (must be Ok or ParseError)",
                    cases: base.iter().filter(|c| c.fam == "F-STMT" && c.dial != Dial::Core).cloned().collect(),
                    cfgs: Box::new(|_c: &Case| crate::cfg::Syn::ALL.iter().map(|s| Cfg::default().with_syn(*s)).collect()),
                    widths: Widths::Wide,
                    ranges: Ranges::None,
                    oracles: O_TOTAL,
                    u_cap: 400,
                });
                // extreme configurations
                plans.push(Plan {
                    name: "F-STMT x extreme configurations (indent_width 1..16, collapse, sort, every dialect)",
                    cases: base.clone(),
                    cfgs: cross(true, move |b| {
                        let mut v = vec![];
                        for iw in if thorough { (1..=16).collect::<Vec<usize>>() } else { vec![1, 7, 16] } {
                            for cs in [0u8, 1, 2, 3] {
                                v.push(Cfg { it: 1, iw, cs, ..b });
                            }
                        }
                        v.push(Cfg { sort: true, cs: 3, cp: 3, ..b });
                        v
                    }),
                    widths: Widths::Classes,
                    ranges: Ranges::None,
                    oracles: O_TOTAL,
                    u_cap: 400,
                });
                // the library call with its own output verification switched on: still total, and still the formatted program
                plans.push(Plan {
                    name: "F-STMT + F-NUM + F-STR(short) with OutputVerification::Full (must return: never a panic or a hang)",
                    cases: {
                        let mut v = base.clone();
                        v.extend(gen::f_num());
                        v.extend(gen::f_str(2, 3, 1));
                        v
                    },
                    cfgs: cross(false, |b| vec![b, Cfg { qs: 1, ..b }]),
                    widths: Widths::Classes,
                    ranges: Ranges::None,
                    oracles: O_TOTAL | O_VERIFY,
                    u_cap: 400,
                });
                // ranges are byte offsets: every pair of BYTES of programs that contain multi-byte characters
                plans.push(Plan {
                    name: "programs with multi-byte characters x every pair of byte offsets as range",
                    cases: [
                        "local s = \"\u{e9}t\u{e9}\"\nlocal   t  =  1\n",
                        "-- \u{fc}n\u{ef}\nlocal  a = '\u{df}'\n",
                        "local t = { [\"\u{e9}\"] = 1 } -- \u{2713}\n",
                        "f(  '\u{1f600}'  )\n--[[ \u{4e2d} ]]\n",
                    ]
                    .iter()
                    .map(|t| Case { text: t.to_string(), fam: "F-STMT", dial: Dial::Core, meta: Default::default() })
                    .collect(),
                    cfgs: cross(false, |b| vec![b]),
                    widths: Widths::Classes,
                    ranges: Ranges::AllBytes,
                    oracles: O_TOTAL,
                    u_cap: 400,
                });
                // every range, including inverted / empty / out-of-bounds ones, with collapse
                plans.push(Plan {
                    name: "block statements (alone and behind another statement) x every pair of range points x collapse",
                    cases: {
                        let sel: Vec<Case> = stmt.iter().filter(|c| c.dial == Dial::Core && (c.text.contains("end") || c.text.contains('{'))).cloned().collect();
                        let mut v = sel.clone();
                        // behind another statement the range can start after byte 0 and still contain the whole block statement
                        for c in sel {
                            let mut d = c.clone();
                            d.text = format!("local p = 1\n{}", c.text);
                            v.push(d);
                        }
                        v
                    },
                    cfgs: cross(false, |b| vec![b, Cfg { cs: 3, ..b }, Cfg { cs: 3, sort: true, ..b }]),
                    widths: Widths::Classes,
                    ranges: Ranges::TokenPoints,
                    oracles: O_TOTAL,
                    u_cap: 400,
                });
            }
        }
        "C07x" => {}
        "C03" => {
            let kinds: &[usize] = if thorough { &[0, 1, 2, 3, 4, 5, 6, 7] } else { &[0, 1, 3, 5] };
            plans.push(Plan {
                name: "F-TRIVIA(1) on F-STMT x call_parentheses x collapse x all widths",
                cases: trivia_family(&stmt, kinds),
                cfgs: cross(false, call_collapse),
                widths: Widths::All,
                ranges: Ranges::None,
                oracles: O_CENSUS,
                u_cap: 400,
            });
            plans.push(Plan {
                name: "F-BLOCKWS (a block comment whose inner lines end in blanks, in every gap of seven plain statements (no named table field: the comment between a field name and `=` is KF-NAMEKEY-COMMENT)) x call_parentheses x collapse x all widths",
                cases: gen::f_blockws(),
                cfgs: cross(false, call_collapse),
                widths: Widths::All,
                ranges: Ranges::None,
                oracles: O_CENSUS,
                u_cap: 400,
            });
            plans.push(Plan {
                name: "F-SEQ (comment separators)",
                cases: gen::f_seq(if thorough { 3 } else { 2 }, false).into_iter().filter(|c| c.meta.comments > 0).collect(),
                cfgs: cross(false, |b| vec![b, Cfg { cs: 3, ..b }]),
                widths: Widths::Classes,
                ranges: Ranges::None,
                oracles: O_CENSUS,
                u_cap: 400,
            });
            plans.push(Plan {
                name: "F-SEQ (comment separators) x every pair of range points",
                cases: gen::f_seq(2, false).into_iter().filter(|c| c.meta.comments > 0).enumerate().filter(|(i, _)| thorough && i % 9 == 0 || i % 61 == 0).map(|(_, c)| c).collect(),
                cfgs: cross(false, |b| vec![b]),
                widths: Widths::Classes,
                ranges: Ranges::TokenPoints,
                oracles: O_CENSUS,
                u_cap: 400,
            });
            if thorough {
                plans.push(Plan {
                    name: "F-TRIVIA(1) on long-name F-STMT",
                    cases: trivia_family(&stmt_long, &[0, 1]),
                    cfgs: cross(false, call_collapse),
                    widths: Widths::All,
                    ranges: Ranges::None,
                    oracles: O_CENSUS,
                    u_cap: 400,
                });
                let mut pairs = vec![];
                for b in &stmt {
                    pairs.extend(gen::trivia_pairs(b, "F-TRIVIA2"));
                }
                plans.push(Plan {
                    name: "F-TRIVIA(2) on F-STMT",
                    cases: pairs,
                    cfgs: cross(false, |b| vec![b, Cfg { cp: 3, cs: 3, ..b }]),
                    widths: Widths::Classes,
                    ranges: Ranges::None,
                    oracles: O_CENSUS,
                    u_cap: 400,
                });
            }
        }
        "C05" => {
            plans.push(Plan {
                name: "F-EXPR x all widths (O-TREE)",
                cases: gen::f_expr(thorough),
                cfgs: Box::new(syn_cfgs(false)),
                widths: Widths::All,
                ranges: Ranges::None,
                oracles: O_TREE,
                u_cap: 400,
            });
            plans.push(Plan {
                name: "F-TRUNC x all widths",
                cases: gen::f_trunc(),
                cfgs: cross(false, |b| vec![b, Cfg { cp: 3, ..b }]),
                widths: Widths::All,
                ranges: Ranges::None,
                oracles: O_TREE,
                u_cap: 400,
            });
        }
        "C04" => {
            let (ml, cl, pl) = if thorough { (4, 6, 3) } else { (3, 4, 2) };
            plans.push(Plan {
                name: "F-STR (all bodies up to the length bound) x quote_style x line_endings x syntax",
                cases: gen::f_str(ml, cl, pl),
                cfgs: Box::new(move |_c: &Case| {
                    let mut v = vec![];
                    let syns: Vec<crate::cfg::Syn> = if cfg!(feature = "allsyn") {
                        vec![crate::cfg::Syn::Lua51, crate::cfg::Syn::Lua54, crate::cfg::Syn::Luau, crate::cfg::Syn::All]
                    } else {
                        vec![crate::cfg::Syn::Lua51, crate::cfg::Syn::All]
                    };
                    for syn in syns {
                        for qs in 0..4u8 {
                            for le in 0..2u8 {
                                v.push(Cfg { qs, le, ..Cfg::default().with_syn(syn) });
                            }
                        }
                    }
                    v
                }),
                widths: Widths::Wide,
                ranges: Ranges::None,
                oracles: O_LIT,
                u_cap: 400,
            });
            plans.push(Plan {
                name: "F-NUM (numeric spellings of every dialect) x syntax x widths",
                cases: gen::f_num(),
                cfgs: Box::new(|_c: &Case| crate::cfg::Syn::ALL.iter().map(|s| Cfg::default().with_syn(*s)).collect()),
                widths: Widths::Classes,
                ranges: Ranges::None,
                oracles: O_LIT,
                u_cap: 400,
            });
            plans.push(Plan {
                name: "F-STMT literals under every quote style",
                cases: stmt.clone(),
                cfgs: cross(thorough, |b| (0..4u8).flat_map(|qs| (0..2u8).map(move |le| Cfg { qs, le, ..b })).collect()),
                widths: Widths::Classes,
                ranges: Ranges::None,
                oracles: O_LIT,
                u_cap: 400,
            });
        }
        "C08" => {
            plans.push(Plan {
                name: "F-IGN (directive before every statement kind / regions / table fields) x collapse x line endings x all widths",
                cases: gen::f_ign(thorough),
                cfgs: cross(thorough, |b| {
                    let mut v = vec![b, Cfg { cs: 3, ..b }, Cfg { le: 1, ..b }, Cfg { sort: true, ..b }, Cfg { it: 1, iw: 2, ..b }];
                    v.push(Cfg { cp: 3, ..b });
                    v
                }),
                widths: Widths::All,
                ranges: Ranges::None,
                oracles: O_IGN,
                u_cap: 400,
            });
            plans.push(Plan {
                name: "edges: a formatted neighbour on the same line behind the `;` of an ignored statement; an ignored last statement alone in its block",
                cases: gen::f_ign_edges(),
                cfgs: cross(false, |b| vec![b, Cfg { cs: 3, ..b }]),
                widths: Widths::All,
                ranges: Ranges::None,
                oracles: O_IGN,
                u_cap: 400,
            });
            plans.push(Plan {
                name: "require groups inside ignore regions that span several groups x sort_requires",
                cases: gen::f_ign_requires(),
                cfgs: cross(false, |b| vec![Cfg { sort: true, ..b }, b]),
                widths: Widths::Classes,
                ranges: Ranges::None,
                oracles: O_IGN,
                u_cap: 400,
            });
            // an ignored statement stays verbatim also when a formatting range lies inside it
            plans.push(Plan {
                name: "ignored compound statements x every pair of range points",
                cases: gen::f_ign_compound(),
                cfgs: cross(false, |b| vec![b]),
                widths: Widths::Wide,
                ranges: Ranges::TokenPoints,
                oracles: O_IGN,
                u_cap: 400,
            });
        }
        "C08r" => {}
        "C09" => {
            // quick: every 97th two-statement sequence; thorough: EVERY two-statement sequence and every 499th three-statement
            // sequence (all 1.2 M of them x ~1000 range pairs is out of reach; the bound is stated, not a wall-clock cap)
            let mut cases = gen::f_seq(2, false);
            if !thorough {
                cases = cases.into_iter().enumerate().filter(|(i, _)| i % 97 == 0).map(|(_, c)| c).collect();
            } else {
                cases.extend(gen::f_seq(3, false).into_iter().enumerate().filter(|(i, _)| i % 499 == 0).map(|(_, c)| c));
            }
            let blocks: Vec<Case> = only_dials(stmt.clone(), &[Dial::Core]).into_iter().filter(|c| c.text.contains("end") || c.text.contains('{') || c.text.contains(';')).collect();
            cases.extend(blocks.clone());
            // the same behind another statement: only then can a range that starts after byte 0 contain the whole block statement
            for c in blocks {
                let mut d = c.clone();
                d.text = format!("local p = 1\n{}", c.text);
                cases.push(d);
            }
            plans.push(Plan {
                name: "F-SEQ + block statements (alone and behind another statement) x every pair of range points x width classes",
                cases,
                cfgs: cross(false, |b| vec![b, Cfg { cs: 3, ..b }]),
                widths: Widths::Classes,
                ranges: Ranges::TokenPoints,
                oracles: O_RANGE,
                u_cap: 400,
            });
            plans.push(Plan {
                name: "ignored compound statements x every pair of range points (a range inside an ignored statement formats nothing)",
                cases: gen::f_ign_compound(),
                cfgs: cross(false, |b| vec![b]),
                widths: Widths::Wide,
                ranges: Ranges::TokenPoints,
                oracles: O_RANGE,
                u_cap: 400,
            });
            plans.push(Plan {
                name: "F-REQ with sort_requires on x every pair of range points",
                cases: gen::f_req(if thorough { 3 } else { 2 }, false).into_iter().filter(|c| !c.text.contains("stylua")).collect(),
                cfgs: cross(false, |b| vec![Cfg { sort: true, ..b }]),
                widths: Widths::Wide,
                ranges: Ranges::TokenPoints,
                oracles: O_RANGE,
                u_cap: 400,
            });
        }
        "C10" => {
            let mut bases: Vec<Case> = stmt.clone();
            bases.extend(stmt_long.clone());
            let tri = trivia_family(&only_dials(stmt.clone(), &[Dial::Core]), if thorough { &[0, 1, 3, 5, 6, 7] } else { &[0, 3, 5, 7] });
            let mut ws: Vec<Case> = gen::f_ws_files();
            for b in bases.iter() {
                ws.extend(gen::ws_variants(b, thorough));
            }
            for b in tri.iter() {
                // quick tier: the whole-file CRLF rendering of every single-comment program; thorough: every rendering
                ws.extend(gen::ws_variants(b, false).into_iter().take(if thorough { 20 } else { 1 }));
            }
            let opts = move |b: Cfg| {
                let mut v = vec![];
                for le in 0..2u8 {
                    v.push(Cfg { le, it: 0, ..b });
                    for iw in if thorough { vec![1usize, 2, 3, 4, 8] } else { vec![2usize, 3] } {
                        v.push(Cfg { le, it: 1, iw, ..b });
                    }
                }
                v
            };
            plans.push(Plan {
                name: "F-STMT / F-STMT-L / F-TRIVIA as written x line_endings x indent_type x indent_width x all widths",
                cases: { let mut c = bases.clone(); c.extend(tri.clone()); c },
                cfgs: cross(false, opts.clone()),
                widths: Widths::All,
                ranges: Ranges::None,
                oracles: O_WS,
                u_cap: 400,
            });
            plans.push(Plan {
                name: "F-DECL (local declarations without an assignment, every subset of 1..3 names annotated) x line_endings x indent x all widths",
                cases: gen::f_decl(),
                cfgs: cross(false, opts.clone()),
                widths: Widths::All,
                ranges: Ranges::None,
                oracles: O_WS,
                u_cap: 400,
            });
            plans.push(Plan {
                name: "ignore regions in CRLF / oddly indented files: what follows `ignore end` is formatted text again (the ignored lines are exempt)",
                cases: gen::f_ign_after_region(),
                cfgs: cross(false, opts.clone()),
                widths: Widths::Classes,
                ranges: Ranges::None,
                oracles: O_WS,
                u_cap: 400,
            });
            plans.push(Plan {
                name: "F-WS renderings (CRLF, mixed, space indentation, EOF variants) x line_endings x indent x width classes",
                cases: ws,
                cfgs: cross(false, opts),
                widths: Widths::Classes,
                ranges: Ranges::None,
                oracles: O_WS,
                u_cap: 400,
            });
        }
        "C11" => {
            let opts = move |b: Cfg| {
                let mut v = vec![];
                for qs in 0..4u8 {
                    for cp in 0..5u8 {
                        for safn in 0..4u8 {
                            if thorough || qs == 0 || (cp == 0 && safn == 0) || (qs == 3 && cp == 3 && safn == 3) {
                                v.push(Cfg { qs, cp, safn, ..b });
                            }
                        }
                    }
                }
                v.push(Cfg { ncp: true, ..b });
                v.push(Cfg { cs: 3, cp: 3, safn: 3, ..b });
                v
            };
            plans.push(Plan {
                name: "F-CALL (call / function shapes) x quote_style x call_parentheses x space_after_function_names x all widths",
                cases: gen::f_call(thorough),
                cfgs: cross(false, opts.clone()),
                widths: Widths::All,
                ranges: Ranges::None,
                oracles: O_OPTS,
                u_cap: 400,
            });
            plans.push(Plan {
                name: "F-STMT x option product x width classes",
                cases: stmt.clone(),
                cfgs: cross(false, opts),
                widths: Widths::Classes,
                ranges: Ranges::None,
                oracles: O_OPTS,
                u_cap: 400,
            });
            plans.push(Plan {
                name: "F-STR (all bodies) x 4 quote styles",
                cases: if thorough { gen::f_str(4, 5, 1) } else { gen::f_str(3, 4, 1) },
                cfgs: Box::new(|_c: &Case| (0..4u8).map(|qs| Cfg { qs, ..Cfg::default() }).collect()),
                widths: Widths::Wide,
                ranges: Ranges::None,
                oracles: O_OPTS,
                u_cap: 400,
            });
        }
        "C09r" => {}
        "C12" => {
            plans.push(Plan {
                name: "F-REQ (sequences of require / GetService / other statements, blank lines, comments, directives) x sort on/off",
                cases: gen::f_req(if thorough { 4 } else { 3 }, thorough),
                cfgs: cross(false, |b| vec![Cfg { sort: true, ..b }, b, Cfg { sort: true, le: 1, ..b }]),
                widths: if thorough { Widths::Classes } else { Widths::Wide },
                ranges: Ranges::None,
                oracles: O_SORT | O_CENSUS | O_PARSE,
                u_cap: 400,
            });
            plans.push(Plan {
                name: "ignore regions opening and closing at every pair of positions of three require groups x sort on",
                cases: gen::f_ign_requires(),
                cfgs: cross(false, |b| vec![Cfg { sort: true, ..b }]),
                widths: Widths::Wide,
                ranges: Ranges::None,
                oracles: O_SORT | O_PARSE,
                u_cap: 400,
            });
            plans.push(Plan {
                name: "one large require group (21..64 members, 5 base orders) with one duplicated name at every pair of positions",
                cases: gen::f_req_large(thorough),
                cfgs: cross(false, |b| vec![Cfg { sort: true, ..b }]),
                widths: Widths::Wide,
                ranges: Ranges::None,
                oracles: O_SORT | O_PARSE,
                u_cap: 400,
            });
        }
        _ => {}
    }
    plans
}
