//! Per-property plans (what is enumerated) and the property-specific oracles.

use crate::cfg::{syntaxes_for, Cfg};
use crate::explore::*;
use crate::gen::{self, Case, Dial};
use std::collections::HashMap;

pub fn check_output_more(_t: &TaskCtx, _out: &str, _oi: &Info, _st: &mut Stats, _f: &mut Vec<(String, String)>) {}

pub fn check_range_task(
    _t: &TaskCtx,
    _outputs: &HashMap<String, usize>,
    _st: &mut Stats,
    _fails: &mut Vec<Failure>,
    _seen: &mut HashMap<String, usize>,
) {
}

fn syn_cfgs(thorough: bool) -> impl Fn(&Case) -> Vec<Cfg> + Sync {
    move |c: &Case| syntaxes_for(c.dial, thorough).into_iter().map(|s| Cfg::default().with_syn(s)).collect()
}

/// cross product helper: for every syntax of the case, every cfg produced by `f`
fn cross(thorough_syn: bool, f: impl Fn(Cfg) -> Vec<Cfg> + Sync + 'static) -> Box<dyn Fn(&Case) -> Vec<Cfg> + Sync> {
    Box::new(move |c: &Case| {
        let mut v = vec![];
        for s in syntaxes_for(c.dial, thorough_syn) {
            v.extend(f(Cfg::default().with_syn(s)));
        }
        v
    })
}

/// all-singles sweep around the default: every option one value at a time
pub fn singles(base: Cfg) -> Vec<Cfg> {
    let mut v = vec![base];
    for le in 1..2 {
        v.push(Cfg { le, ..base });
    }
    v.push(Cfg { it: 1, ..base });
    v.push(Cfg { it: 1, iw: 2, ..base });
    for qs in 1..4 {
        v.push(Cfg { qs, ..base });
    }
    for cp in 1..5 {
        v.push(Cfg { cp, ..base });
    }
    for cs in 1..4 {
        v.push(Cfg { cs, ..base });
    }
    for safn in 1..4 {
        v.push(Cfg { safn, ..base });
    }
    v.push(Cfg { sort: true, ..base });
    v.push(Cfg { ncp: true, ..base });
    v
}

fn call_collapse(base: Cfg) -> Vec<Cfg> {
    let mut v = vec![];
    for cp in [0u8, 3, 4] {
        for cs in [0u8, 3] {
            v.push(Cfg { cp, cs, ..base });
        }
    }
    v
}

pub fn only_dials(cases: Vec<Case>, dials: &[Dial]) -> Vec<Case> {
    cases.into_iter().filter(|c| dials.contains(&c.dial)).collect()
}

pub fn trivia_family(bases: &[Case], kinds: &[usize]) -> Vec<Case> {
    let mut v = vec![];
    for b in bases {
        v.extend(gen::trivia_variants(b, kinds, "F-TRIVIA"));
    }
    v
}

pub fn plans_for(prop: &str, thorough: bool) -> Vec<Plan> {
    let mut plans: Vec<Plan> = vec![];
    let stmt = gen::f_stmt();
    let stmt_long = gen::f_stmt_long();
    match prop {
        "C01" | "C02" | "C06" | "C07" => {
            let o = match prop {
                "C01" => O_PARSE,
                "C02" => O_NF,
                "C06" => O_IDEM,
                _ => O_TOTAL,
            };
            let mut base = stmt.clone();
            base.extend(stmt_long.clone());
            plans.push(Plan {
                name: "F-STMT x singles x all widths",
                cases: base.clone(),
                cfgs: cross(thorough, singles),
                widths: Widths::All,
                ranges: Ranges::None,
                oracles: o,
                u_cap: 400,
            });
            plans.push(Plan {
                name: "F-EXPR x all widths",
                cases: gen::f_expr(thorough),
                cfgs: Box::new(syn_cfgs(false)),
                widths: Widths::All,
                ranges: Ranges::None,
                oracles: o,
                u_cap: 400,
            });
            plans.push(Plan {
                name: "F-TRIVIA(1) on F-STMT x call_parentheses x collapse x all widths",
                cases: trivia_family(&stmt, if thorough { &[0, 1, 2, 3, 4, 5, 6] } else { &[0, 1, 5] }),
                cfgs: cross(false, call_collapse),
                widths: Widths::All,
                ranges: Ranges::None,
                oracles: o,
                u_cap: 400,
            });
            plans.push(Plan {
                name: "F-STR + F-NUM x quote_style x line_endings",
                cases: {
                    let mut v = if thorough { gen::f_str(4, 5, 2) } else { gen::f_str(3, 4, 1) };
                    v.extend(gen::f_num());
                    v
                },
                cfgs: Box::new(|_c: &Case| {
                    let mut v = vec![];
                    let syns: Vec<crate::cfg::Syn> =
                        if cfg!(feature = "allsyn") { vec![crate::cfg::Syn::Lua51, crate::cfg::Syn::Luau, crate::cfg::Syn::All] } else { vec![crate::cfg::Syn::Lua51, crate::cfg::Syn::All] };
                    for syn in syns {
                        for qs in [0u8, 1, 3] {
                            for le in 0..2u8 {
                                v.push(Cfg { qs, le, ..Cfg::default().with_syn(syn) });
                            }
                        }
                    }
                    v
                }),
                widths: Widths::Wide,
                ranges: Ranges::None,
                oracles: o,
                u_cap: 400,
            });
            plans.push(Plan {
                name: "F-SEQ x all widths",
                cases: gen::f_seq(if thorough { 3 } else { 2 }, thorough),
                cfgs: cross(false, |b| vec![b, Cfg { cs: 3, ..b }]),
                widths: Widths::Classes,
                ranges: Ranges::None,
                oracles: o,
                u_cap: 400,
            });
        }
        "C03" => {
            let kinds: &[usize] = if thorough { &[0, 1, 2, 3, 4, 5, 6] } else { &[0, 1, 3, 5] };
            plans.push(Plan {
                name: "F-TRIVIA(1) on F-STMT x call_parentheses x collapse x all widths",
                cases: trivia_family(&stmt, kinds),
                cfgs: cross(false, call_collapse),
                widths: Widths::All,
                ranges: Ranges::None,
                oracles: O_CENSUS,
                u_cap: 400,
            });
            plans.push(Plan {
                name: "F-SEQ (comment separators)",
                cases: gen::f_seq(if thorough { 3 } else { 2 }, thorough).into_iter().filter(|c| c.meta.comments > 0).collect(),
                cfgs: cross(false, |b| vec![b, Cfg { cs: 3, ..b }]),
                widths: Widths::Classes,
                ranges: Ranges::None,
                oracles: O_CENSUS,
                u_cap: 400,
            });
            if thorough {
                plans.push(Plan {
                    name: "F-TRIVIA(1) on long-name F-STMT",
                    cases: trivia_family(&stmt_long, &[0, 1]),
                    cfgs: cross(false, call_collapse),
                    widths: Widths::All,
                    ranges: Ranges::None,
                    oracles: O_CENSUS,
                    u_cap: 400,
                });
                let mut pairs = vec![];
                for b in &stmt {
                    pairs.extend(gen::trivia_pairs(b, "F-TRIVIA2"));
                }
                plans.push(Plan {
                    name: "F-TRIVIA(2) on F-STMT",
                    cases: pairs,
                    cfgs: cross(false, |b| vec![b, Cfg { cp: 3, cs: 3, ..b }]),
                    widths: Widths::Classes,
                    ranges: Ranges::None,
                    oracles: O_CENSUS,
                    u_cap: 400,
                });
            }
        }
        "C05" => {
            plans.push(Plan {
                name: "F-EXPR x all widths (O-TREE)",
                cases: gen::f_expr(thorough),
                cfgs: Box::new(syn_cfgs(false)),
                widths: Widths::All,
                ranges: Ranges::None,
                oracles: O_TREE,
                u_cap: 400,
            });
            plans.push(Plan {
                name: "F-TRUNC x all widths",
                cases: gen::f_trunc(),
                cfgs: cross(false, |b| vec![b, Cfg { cp: 3, ..b }]),
                widths: Widths::All,
                ranges: Ranges::None,
                oracles: O_TREE,
                u_cap: 400,
            });
        }
        "C04" => {
            let (ml, cl, pl) = if thorough { (4, 6, 3) } else { (3, 4, 2) };
            plans.push(Plan {
                name: "F-STR (all bodies up to the length bound) x quote_style x line_endings x syntax",
                cases: gen::f_str(ml, cl, pl),
                cfgs: Box::new(move |_c: &Case| {
                    let mut v = vec![];
                    let syns: Vec<crate::cfg::Syn> = if cfg!(feature = "allsyn") {
                        vec![crate::cfg::Syn::Lua51, crate::cfg::Syn::Lua54, crate::cfg::Syn::Luau, crate::cfg::Syn::All]
                    } else {
                        vec![crate::cfg::Syn::Lua51, crate::cfg::Syn::All]
                    };
                    for syn in syns {
                        for qs in 0..4u8 {
                            for le in 0..2u8 {
                                v.push(Cfg { qs, le, ..Cfg::default().with_syn(syn) });
                            }
                        }
                    }
                    v
                }),
                widths: Widths::Wide,
                ranges: Ranges::None,
                oracles: O_LIT,
                u_cap: 400,
            });
            plans.push(Plan {
                name: "F-NUM (numeric spellings of every dialect) x syntax x widths",
                cases: gen::f_num(),
                cfgs: Box::new(|_c: &Case| crate::cfg::Syn::ALL.iter().map(|s| Cfg::default().with_syn(*s)).collect()),
                widths: Widths::Classes,
                ranges: Ranges::None,
                oracles: O_LIT,
                u_cap: 400,
            });
            plans.push(Plan {
                name: "F-STMT literals under every quote style",
                cases: stmt.clone(),
                cfgs: cross(thorough, |b| (0..4u8).flat_map(|qs| (0..2u8).map(move |le| Cfg { qs, le, ..b })).collect()),
                widths: Widths::Classes,
                ranges: Ranges::None,
                oracles: O_LIT,
                u_cap: 400,
            });
        }
        _ => {}
    }
    plans
}
