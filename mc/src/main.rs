mod cfg;
mod cli;
mod deep;
mod explore;
mod gen;
mod lex;
mod nf;
mod ordertest;
mod props;
mod sched;
mod val;

use explore::*;
use serde_json::{json, Value};
use std::collections::{BTreeMap, HashMap, HashSet};
use std::time::Instant;

const VERIF: &str = "/verif";

fn build_name() -> &'static str {
    if cfg!(feature = "allsyn") {
        "A(all syntaxes)"
    } else {
        "B(default features)"
    }
}

pub struct Known {
    /// hash of the failure key -> (finding id, the widths at which the instance is known to fail, as inclusive ranges)
    pub by_key: HashMap<String, (String, Vec<(usize, usize)>)>,
    pub findings: Vec<(String, String, String, usize)>, // id, property, what, listed instances
}

pub fn load_known(prop: &str) -> Known {
    let mut k = Known { by_key: HashMap::new(), findings: vec![] };
    let dir = format!("{}/known_findings", VERIF);
    let path = format!("{}/{}.json", dir, prop);
    let Ok(s) = std::fs::read_to_string(&path) else { return k };
    let v: Value = serde_json::from_str(&s).expect("known findings file must be valid JSON");
    for f in v["findings"].as_array().cloned().unwrap_or_default() {
        let id = f["id"].as_str().unwrap_or("?").to_string();
        let what = f["what"].as_str().unwrap_or("").to_string();
        // instances are identified by the 64-bit FNV-1a hash of their key "class|config[ range]|program"
        // (the clear-text keys of a few of them are kept under "examples" for the reader)
        // {"<hash>": "1-12,15", ...}: the widths are part of the identity of an instance, so that the same input failing at
        // a NEW width is still reported
        let empty = serde_json::Map::new();
        let inst = f["instances"].as_object().unwrap_or(&empty);
        for (h, r) in inst {
            let ranges: Vec<(usize, usize)> = r
                .as_str()
                .unwrap_or("")
                .split(',')
                .filter(|x| !x.is_empty())
                .filter_map(|x| match x.split_once('-') {
                    Some((a, b)) => Some((a.parse().ok()?, b.parse().ok()?)),
                    None => {
                        let v = x.parse().ok()?;
                        Some((v, v))
                    }
                })
                .collect();
            k.by_key.insert(h.clone(), (id.clone(), ranges));
        }
        k.findings.push((id, prop.to_string(), what, inst.len()));
    }
    k
}

fn fnv(s: &str) -> u64 {
    let mut h: u64 = 0xcbf29ce484222325;
    for b in s.bytes() {
        h ^= b as u64;
        h = h.wrapping_mul(0x100000001b3);
    }
    h
}

fn failure_json(prop: &str, f: &Failure) -> Value {
    json!({
        "property": prop,
        "engine": "E1",
        "class": f.class,
        "family": f.fam,
        "program": f.text,
        "config": f.cfg.key(),
        "width": if f.width == usize::MAX { json!("max") } else { json!(f.width) },
        "widths_failing": f.nwidths,
        "width_max": if f.wmax == usize::MAX { json!("max") } else { json!(f.wmax) },
        "range": match f.range { None => Value::Null, Some((s, e)) => json!([s, e]) },
        "detail": f.detail,
        "output": f.output,
        "key": f.key(),
    })
}

fn main() {
    let args: Vec<String> = std::env::args().collect();
    if args.len() < 2 {
        eprintln!("usage: mc check <ID> <quick|thorough> | mc replay <file> | mc fmt <file> [width]");
        std::process::exit(3);
    }
    std::panic::set_hook(Box::new(|info| {
        if !explore::IN_SUBJECT.with(|f| f.get()) {
            eprintln!("mc: HARNESS PANIC: {}", info);
        }
    }));
    match args[1].as_str() {
        "check" => {
            let prop = args[2].clone();
            let tier = args.get(3).cloned().unwrap_or("quick".into());
            let emit = args.iter().position(|a| a == "--emit-findings").map(|i| args[i + 1].clone());
            std::process::exit(check(&prop, &tier, emit));
        }
        "replay" => std::process::exit(replay(&args[2])),
        "deep" => deep::worker(&args[2], args[3].parse().unwrap(), args[4].parse().unwrap(), &args[5]),
        "ordertest" => ordertest::run(),
        "lexdiff" => {
            let mut n = 0;
            for c in gen::f_str(3, 4, 1) {
                for syn in [cfg::Syn::Lua51, cfg::Syn::Luau, cfg::Syn::All] {
                    let i = explore::analyse(&c.text, syn, false);
                    if i.parses && !i.lex_ok && n < 25 {
                        println!("{:?} {:?} {:?}", syn, c.text, lex::lex(&c.text).err().map(|e| e.0));
                        n += 1;
                    }
                }
            }
        }
        "famsizes" => {
            println!("f_seq(2)={} f_seq(3)={} f_seq(3,thorough)={}", gen::f_seq(2, false).len(), gen::f_seq(3, false).len(), gen::f_seq(3, true).len());
        }
        "dump" => ordertest::dump(&args[2]),
        "fmt" => {
            let text = std::fs::read_to_string(&args[2]).unwrap();
            let w = args.get(3).map(|s| s.parse().unwrap()).unwrap_or(120);
            let c = args.get(4).and_then(|k| cfg::Cfg::from_key(k)).unwrap_or_default();
            println!("{:?}", run_format(&text, &c, w, None).0);
        }
        _ => {
            eprintln!("unknown command");
            std::process::exit(3);
        }
    }
}

fn hang_limit() -> std::time::Duration {
    std::time::Duration::from_secs(std::env::var("MC_HANG_S").ok().and_then(|s| s.parse().ok()).unwrap_or(30))
}

/// A library call that never returns would leave the explorer waiting for ever. The watchdog reports the input of the
/// oldest call that exceeds the limit and ends the process: as a C07 violation when C07 is being checked, as a
/// machinery exit (no verdict) for every other property.
fn start_watchdog(prop: &str) {
    let prop = prop.to_string();
    std::thread::spawn(move || loop {
        std::thread::sleep(std::time::Duration::from_millis(500));
        if let Some((text, cfg, width, range, age)) = explore::stuck_call(hang_limit()) {
            let f = Failure {
                class: "hang".into(),
                fam: "E1-watchdog",
                text,
                cfg,
                width,
                wmax: width,
                nwidths: 1,
                widths: vec![width],
                range,
                detail: format!("format_code has not returned after {:.0} s", age.as_secs_f64()),
                output: String::new(),
            };
            let rdir = format!("{}/replays/{}", VERIF, prop);
            let _ = std::fs::create_dir_all(&rdir);
            let path = format!("{}/{:016x}.json", rdir, fnv(&f.key()));
            let _ = std::fs::write(&path, serde_json::to_string_pretty(&failure_json(&prop, &f)).unwrap());
            eprintln!("  [hang] {} | {} | w={} range={:?} -> {}", f.text.escape_debug(), f.cfg.key(), f.width, f.range, f.detail);
            if prop == "C07" {
                println!("VIOLATION property=C07 replay={}", path);
                std::process::exit(1);
            }
            eprintln!("mc: a library call did not return; no verdict for {} (this is C07's subject; input recorded in {})", prop, path);
            std::process::exit(3);
        }
    });
}

fn check(prop: &str, tier: &str, emit: Option<String>) -> i32 {
    let t0 = Instant::now();
    let thorough = tier == "thorough";
    let threads = std::thread::available_parallelism().map(|n| n.get()).unwrap_or(8);
    let cap_s: u64 = std::env::var("MC_CAP_S").ok().and_then(|s| s.parse().ok()).unwrap_or(if thorough { 3000 } else { 100 });
    let deadline = Some(t0 + std::time::Duration::from_secs(cap_s));
    if matches!(prop, "C13" | "C14" | "C15" | "C16" | "C17" | "C18" | "C19" | "C20") {
        if let Err(e) = cli::check_ancestors_clean() {
            eprintln!("mc: machinery error: {}", e);
            return 3;
        }
        if !std::path::Path::new(cli::BIN).exists() {
            eprintln!("mc: machinery error: {} has not been built", cli::BIN);
            return 3;
        }
        let mut stats = Stats::default();
        let failures = match prop {
            "C18" => cli::c18(thorough, &mut stats),
            "C19" => sched::c19(thorough, &mut stats),
            "C13" => cli::c13(thorough, &mut stats),
            "C17" => cli::c17(thorough, &mut stats),
            "C20" => cli::c20(thorough, &mut stats),
            "C16" => cli::c16(thorough, &mut stats),
            "C15" => {
                let mut v = cli::c15(thorough, &mut stats);
                v.extend(cli::c15_sections(&mut stats));
                v.extend(cli::c15_below(&mut stats));
                v
            }
            "C14" => cli::c14(thorough, &mut stats),
            _ => {
                eprintln!("mc: no E2 explorer for {}", prop);
                return 3;
            }
        };
        let rows = vec![json!({"plan": format!("E2 scenarios for {}", prop), "executions": stats.transitions, "failures": failures.len(), "wall_s": t0.elapsed().as_secs_f64()})];
        eprintln!("[{}] E2: executions={} failures={} ({:.1}s)", prop, stats.transitions, failures.len(), t0.elapsed().as_secs_f64());
        stats.nontrivial = stats.transitions;
        stats.distinct_outputs = stats.transitions;
        return finish(prop, tier, if prop == "C19" { "E3" } else { "E2" }, stats, failures, rows, emit, t0);
    }
    let plans = props::plans_for(prop, thorough);
    if plans.is_empty() {
        eprintln!("mc: no E1 plan for {}", prop);
        return 3;
    }
    start_watchdog(prop);
    let mut stats = Stats::default();
    let mut failures: Vec<Failure> = vec![];
    let mut plan_rows = vec![];
    for p in &plans {
        let tp = Instant::now();
        let r = run_plan(p, threads, deadline);
        plan_rows.push(json!({
            "plan": p.name, "cases": r.stats.cases, "tasks": r.stats.tasks, "transitions": r.stats.transitions,
            "distinct_outputs": r.stats.distinct_outputs, "failures": r.failures.len(), "wall_s": tp.elapsed().as_secs_f64(),
            "widths": format!("{:?}", p.widths), "ranges": format!("{:?}", p.ranges),
        }));
        eprintln!(
            "[{}] plan '{}': cases={} tasks={} transitions={} distinct_outputs={} failures={} ({:.1}s)",
            prop, p.name, r.stats.cases, r.stats.tasks, r.stats.transitions, r.stats.distinct_outputs, r.failures.len(), tp.elapsed().as_secs_f64()
        );
        let cases = stats.cases + r.stats.cases;
        stats.merge(&r.stats);
        stats.cases = cases;
        failures.extend(r.failures);
    }
    if prop == "C07" {
        deep_phase(thorough, &mut stats, &mut failures, &mut plan_rows);
    }
    finish(prop, tier, "E1", stats, failures, plan_rows, emit, t0)
}

/// F-DEEP: every nesting kind x increasing depth x two configurations x two widths, each in a worker process
fn deep_phase(thorough: bool, stats: &mut Stats, failures: &mut Vec<Failure>, plan_rows: &mut Vec<Value>) {
    use std::sync::Mutex;
    let tp = Instant::now();
    let depths: Vec<usize> = if thorough { vec![2, 4, 8, 12, 16, 24, 32, 48, 64, 96, 128] } else { vec![2, 4, 8, 12, 16, 24, 32] };
    let cfgs = [cfg::Cfg::default(), cfg::Cfg { cs: 3, ..cfg::Cfg::default() }];
    let widths = [120usize, 20];
    let timeout = std::time::Duration::from_secs(if thorough { 60 } else { 15 });
    let results: Mutex<Vec<deep::DeepResult>> = Mutex::new(vec![]);
    let next = std::sync::atomic::AtomicUsize::new(0);
    let mut combos = vec![];
    for k in deep::KINDS {
        // kinds written in Luau syntax are not programs for the build without that dialect
        if !cfg!(feature = "allsyn") && matches!(*k, "type-table-nest" | "type-union-nest" | "if-expression-nest") {
            continue;
        }
        for c in &cfgs {
            for w in &widths {
                combos.push((*k, *c, *w));
            }
        }
    }
    std::thread::scope(|sc| {
        for _ in 0..16 {
            sc.spawn(|| loop {
                let i = next.fetch_add(1, std::sync::atomic::Ordering::Relaxed);
                if i >= combos.len() {
                    break;
                }
                let (k, c, w) = &combos[i];
                for d in &depths {
                    let r = deep::run_one(k, *d, *w, c, timeout);
                    let bad = r.outcome != "ok";
                    results.lock().unwrap().push(r);
                    if bad {
                        break; // deeper nesting of the same kind is not run once this depth fails
                    }
                }
            });
        }
    });
    let results = results.into_inner().unwrap();
    let mut nfail = 0;
    let mut by: HashMap<(String, String, usize), Vec<&deep::DeepResult>> = HashMap::new();
    for r in &results {
        by.entry((r.kind.clone(), r.cfg.key(), r.width)).or_default().push(r);
    }
    let mut push = |r: &deep::DeepResult, class: &str, detail: String, failures: &mut Vec<Failure>| {
        failures.push(Failure {
            class: class.to_string(),
            fam: "F-DEEP",
            // a finding is "this nesting kind crashes / blows up", whatever the depth at which it first shows
            text: format!("F-DEEP kind={}", r.kind),
            cfg: r.cfg,
            width: r.width,
            wmax: r.width,
            nwidths: 1,
            widths: vec![r.width],
            range: None,
            detail,
            output: String::new(),
        });
    };
    for r in &results {
        stats.transitions += 1;
        *stats.fam.entry("F-DEEP").or_insert((0, 0)) = {
            let e = stats.fam.get("F-DEEP").cloned().unwrap_or((0, 0));
            (e.0 + 1, e.1 + 1)
        };
        stats.slowest_us = stats.slowest_us.max((r.ms * 1000.0) as u128);
        if r.outcome != "ok" {
            let class = if r.outcome.starts_with("timeout") {
                "deep-time"
            } else if r.outcome.starts_with("killed") {
                "deep-crash"
            } else {
                "deep-error"
            };
            push(r, class, format!("depth {}: outcome {} after {:.0} ms on {} bytes (2 MiB stack)", r.depth, r.outcome, r.ms, r.bytes), failures);
            nfail += 1;
        } else if r.ms > (5000.0f64).max(2.0 * r.bytes as f64) {
            push(r, "deep-time", format!("depth {}: {:.0} ms for {} bytes", r.depth, r.ms, r.bytes), failures);
            nfail += 1;
        }
    }
    // polynomial growth: t(2d)/t(d) <= 16 once t(d) > 50 ms
    for ((_k, _c, _w), rs) in &by {
        for a in rs.iter().filter(|r| r.outcome == "ok" && r.ms > 100.0) {
            if let Some(b) = rs.iter().find(|r| r.depth == a.depth * 2 && r.outcome == "ok") {
                if b.ms / a.ms > 32.0 {
                    push(b, "deep-time", format!("super-polynomial: t({})={:.0} ms but t({})={:.0} ms", a.depth, a.ms, b.depth, b.ms), failures);
                    nfail += 1;
                }
            }
        }
    }
    stats.tasks += combos.len();
    stats.cases += deep::KINDS.len() * depths.len();
    if stats.samples.len() < 12 {
        if let Some(r) = results.iter().max_by(|a, b| a.ms.partial_cmp(&b.ms).unwrap()) {
            stats.samples.push(format!("F-DEEP kind={} depth={} width={} {} -> {} in {:.0} ms", r.kind, r.depth, r.width, r.cfg.key(), r.outcome, r.ms));
        }
    }
    plan_rows.push(json!({"plan": "F-DEEP nesting kinds x depths x {default, collapse Always} x widths {120, 20}, one worker process each, 2 MiB stack",
        "kinds": deep::KINDS, "depths": depths, "executions": results.len(), "failures": nfail, "wall_s": tp.elapsed().as_secs_f64()}));
    eprintln!("[C07] plan 'F-DEEP': executions={} failures={} ({:.1}s)", results.len(), nfail, tp.elapsed().as_secs_f64());
    if std::env::var("MC_DEEP_TABLE").is_ok() {
        let mut rows: Vec<String> = by.iter().map(|((k, c, w), rs)| {
            let m = rs.iter().filter(|r| r.outcome == "ok").map(|r| r.ms).fold(0.0, f64::max);
            let last = rs.iter().max_by_key(|r| r.depth).unwrap();
            format!("{:20} w={:3} {} max_ok_ms={:8.1} deepest={} outcome={}", k, w, if c.contains("cs=Always") { "collapse" } else { "default " }, m, last.depth, last.outcome)
        }).collect();
        rows.sort();
        for r in rows { eprintln!("  {}", r); }
    }
}

#[allow(clippy::too_many_arguments)]
fn finish(prop: &str, tier: &str, engine: &str, stats: Stats, failures: Vec<Failure>, plan_rows: Vec<Value>, emit: Option<String>, t0: Instant) -> i32 {
    let known = load_known(prop);
    // dedupe failures by key
    let mut by_key: BTreeMap<String, Failure> = BTreeMap::new();
    for f in failures {
        match by_key.get_mut(&f.key()) {
            Some(e) => {
                // the same instance observed again (another width): merge
                for w in &f.widths {
                    if !e.widths.contains(w) {
                        e.widths.push(*w);
                    }
                }
                e.nwidths = e.widths.len();
                e.wmax = e.wmax.max(f.wmax);
            }
            None => {
                by_key.insert(f.key(), f);
            }
        }
    }
    let mut reproduced: BTreeMap<String, usize> = BTreeMap::new();
    let mut unlisted: Vec<&Failure> = vec![];
    let mut new_widths: HashMap<String, Vec<usize>> = HashMap::new();
    for (k, f) in &by_key {
        match known.by_key.get(&format!("{:016x}", fnv(k))) {
            Some((id, ranges)) => {
                let uncovered: Vec<usize> = f.widths.iter().filter(|w| !ranges.iter().any(|(a, b)| **w >= *a && **w <= *b)).cloned().collect();
                if uncovered.is_empty() {
                    *reproduced.entry(id.clone()).or_insert(0) += 1
                } else {
                    new_widths.insert(k.clone(), uncovered);
                    unlisted.push(f)
                }
            }
            None => unlisted.push(f),
        }
    }
    if let Some(path) = emit {
        // maintenance mode: write every failure, grouped by class and family, for triage
        let mut groups: BTreeMap<String, Vec<&Failure>> = BTreeMap::new();
        for f in by_key.values() {
            groups.entry(format!("{}/{}", f.class, f.fam)).or_default().push(f);
        }
        let mut out = vec![];
        for (g, fs) in groups {
            out.push(json!({
                "group": g,
                "count": fs.len(),
                "examples": fs.iter().take(6).map(|f| failure_json(prop, f)).collect::<Vec<_>>(),
                "instances": fs.iter().map(|f| json!({"key": f.key(), "output": f.output, "detail": f.detail, "wmin": f.width, "wmax": f.wmax, "n": f.nwidths, "widths": f.widths.iter().map(|w| if *w > 100000 { 100000 } else { *w }).collect::<Vec<_>>()})).collect::<Vec<_>>(),
            }));
        }
        std::fs::write(&path, serde_json::to_string_pretty(&json!({ "property": prop, "groups": out })).unwrap()).unwrap();
        eprintln!("mc: wrote {} failures to {}", by_key.len(), path);
    }
    for (id, p, what, listed) in &known.findings {
        if let Some(n) = reproduced.get(id) {
            println!("KNOWN-FINDING: property={} {}: {} ({} of {} listed instances reproduced in this tier)", p, id, what, n, listed);
        }
    }
    // group unlisted failures: class + family; one VIOLATION line per group (max 25)
    let mut groups: BTreeMap<String, Vec<&Failure>> = BTreeMap::new();
    for f in &unlisted {
        groups.entry(format!("{}/{}", f.class, f.fam)).or_default().push(f);
    }
    let rdir = format!("{}/replays/{}", VERIF, prop);
    let _ = std::fs::create_dir_all(&rdir);
    let mut printed = 0;
    for (g, fs) in &groups {
        // smallest program first: the shortest counterexample is the easiest to read
        let mut fs2: Vec<&&Failure> = fs.iter().collect();
        fs2.sort_by_key(|f| (f.text.len(), f.text.clone()));
        let f = fs2[0];
        let path = format!("{}/{:016x}.json", rdir, fnv(&f.key()));
        let mut j = failure_json(prop, f);
        j["group"] = json!(g);
        if let Some(nw) = new_widths.get(&f.key()) {
            j["note"] = json!(format!("this input is a listed known finding, but it now also fails at widths it did not fail at before: {:?}", nw));
        }
        j["group_size"] = json!(fs.len());
        j["more"] = json!(fs2.iter().skip(1).take(10).map(|f| failure_json(prop, f)).collect::<Vec<_>>());
        std::fs::write(&path, serde_json::to_string_pretty(&j).unwrap()).unwrap();
        if printed < 25 {
            println!("VIOLATION property={} replay={}", prop, path);
            eprintln!("  [{} x{}] {} | {} | w={} -> {}", g, fs.len(), f.text.escape_debug(), f.cfg.key(), f.width, f.detail);
            printed += 1;
        }
    }
    let violations = unlisted.len();
    // evidence
    let nontrivial_rule = "cases: programs from the listed families, each crossed with the listed configurations and EVERY column width 1..U (U = largest width the run compares against, read from the hook; exact by the width-quotient lemma) unless a plan says Classes/Wide; a state is (program, configuration, width[, range]); distinct_nontrivial counts distinct (program, configuration, output) triples whose output differs from the input text";
    let machinery: BTreeMap<String, usize> = stats.machinery.clone();
    let capped = machinery.keys().any(|k| k.contains("wall-clock cap"));
    let ev = json!({
        "property_id": prop,
        "tier": tier,
        "seed": std::env::var("VERIF_SEED").ok().and_then(|s| s.parse::<i64>().ok()).unwrap_or(0),
        "level": "model_checking",
        "coverage": {
            "states": stats.cases + stats.distinct_outputs,
            "transitions": stats.transitions,
            "traces_validated_against_impl": stats.transitions,
            "evaluations": stats.transitions,
            "distinct_nontrivial": stats.nontrivial,
            "rule": nontrivial_rule,
            "samples": stats.samples,
            "exhaustive": !capped,
            "engine": engine,
            "build": build_name(),
            "plans": plan_rows,
            "programs": stats.cases,
            "program_config_pairs": stats.tasks,
            "distinct_outputs": stats.distinct_outputs,
            "skipped_not_valid_in_syntax": stats.skipped_invalid,
            "max_U": stats.max_u,
            "width_enumeration_capped_for": stats.widths_capped,
            "families": stats.fam.iter().map(|(k, v)| (k.to_string(), json!({"program_config_pairs": v.0, "transitions": v.1}))).collect::<serde_json::Map<_, _>>(),
            "layout_signatures": stats.layouts,
            "oracle_evaluations": stats.oracle_evals,
            "machinery_notes": machinery,
            "slowest_transition_us": stats.slowest_us as u64,
            "known_findings_reproduced": reproduced,
            "unlisted_failures": violations,
            "explanation": "direct exhaustive exploration of the real library (no model): every element of the bounded space is executed and judged",
        },
        "assumptions": [
            "full_moon defines parse_s (the property does too); O-LEX / O-TOK are independent of it",
            "the width-quotient lemma (DESIGN 3.1): column_width is read only in Shape::over_budget",
            "programs are bounded as described by the plans; nothing outside the families is covered"
        ],
        "wall_s": t0.elapsed().as_secs_f64(),
        "violations": violations,
    });
    let _ = std::fs::create_dir_all(format!("{}/evidence", VERIF));
    let evpath = format!("{}/evidence/{}{}.json", VERIF, prop, if cfg!(feature = "allsyn") { "" } else { ".buildB" });
    std::fs::write(&evpath, serde_json::to_string_pretty(&ev).unwrap()).unwrap();
    eprintln!(
        "[{}] {} tier: states={} transitions={} distinct_nontrivial={} known-findings reproduced={} unlisted={} wall={:.1}s",
        prop, tier, stats.cases + stats.distinct_outputs, stats.transitions, stats.nontrivial, reproduced.values().sum::<usize>(), violations, t0.elapsed().as_secs_f64()
    );
    if violations > 0 {
        1
    } else {
        0
    }
}

fn replay(path: &str) -> i32 {
    let s = std::fs::read_to_string(path).expect("replay file");
    let v: Value = serde_json::from_str(&s).expect("json");
    let fam = v["family"].as_str().unwrap_or("");
    if fam == "F-DEEP" {
        println!("F-DEEP case: {} (recorded: {})", v["program"], v["detail"]);
        println!("re-run with: mc deep <kind> <depth> <width> '<config key>'  (kind and depth are in the lines above)");
        return 0;
    }
    if fam.starts_with("E3-") {
        return sched::replay(v["program"].as_str().unwrap(), v["detail"].as_str().unwrap_or(""));
    }
    if fam.starts_with("E2-") {
        // re-generate the scenario space of the property and execute only the recorded scenario, verbosely
        std::env::set_var("MC_ONLY_DESC", v["program"].as_str().unwrap());
        let prop = v["property"].as_str().unwrap();
        let mut stats = Stats::default();
        let _ = match prop {
            "C13" => cli::c13(true, &mut stats),
            "C14" => cli::c14(true, &mut stats),
            "C15" => {
                let mut x = cli::c15(true, &mut stats);
                x.extend(cli::c15_sections(&mut stats));
                x.extend(cli::c15_below(&mut stats));
                x
            }
            "C16" => cli::c16(true, &mut stats),
            "C17" => cli::c17(true, &mut stats),
            "C18" => cli::c18(true, &mut stats),
            "C20" => cli::c20(true, &mut stats),
            _ => vec![],
        };
        println!("recorded: class={} detail={}", v["class"], v["detail"]);
        return 0;
    }
    let text = v["program"].as_str().unwrap();
    let c = cfg::Cfg::from_key(v["config"].as_str().unwrap()).expect("config key");
    let w = v["width"].as_u64().map(|x| x as usize).unwrap_or(usize::MAX);
    let range = v["range"].as_array().map(|a| (a[0].as_u64().map(|x| x as usize), a[1].as_u64().map(|x| x as usize)));
    println!("program:\n{}\nconfig: {} width={} range={:?}", text, c.key(), w, range);
    if v["class"].as_str() == Some("hang") {
        // the recorded call did not return: run it on a thread of its own and give up after the same limit
        let (tx, rx) = std::sync::mpsc::channel();
        let (t2, c2) = (text.to_string(), c);
        std::thread::spawn(move || {
            let _ = tx.send(run_format(&t2, &c2, w, range).0);
        });
        match rx.recv_timeout(hang_limit()) {
            Ok(o) => {
                println!("the call returns now: {:?}", o);
                return 0;
            }
            Err(_) => {
                println!("the call has not returned after {} s (recorded: {})", hang_limit().as_secs(), v["detail"]);
                return 1;
            }
        }
    }
    let (o, _) = run_format(text, &c, w, range);
    println!("result: {:?}", o);
    if let Out::Ok(out) = &o {
        println!("output:\n{}", out);
        let (o2, _) = run_format(out, &c, w, range);
        if let Out::Ok(o2s) = &o2 {
            if o2s != out {
                println!("second pass differs:\n{}", o2s);
            }
        }
    }
    println!("recorded: class={} detail={}", v["class"], v["detail"]);
    let _ = HashSet::<u8>::new();
    0
}
