use full_moon::node::Node;
use full_moon::tokenizer::TokenReference;
use full_moon::visitors::VisitorMut;
struct Num(Vec<String>);
impl VisitorMut for Num {
    fn visit_token_reference(&mut self, t: TokenReference) -> TokenReference {
        self.0.push(t.to_string());
        t
    }
}
pub fn run() {
    let mut files: Vec<std::path::PathBuf> = vec![];
    for d in std::fs::read_dir("/repo/tests").unwrap() {
        let d = d.unwrap().path();
        if d.is_dir() && d.file_name().unwrap().to_string_lossy().starts_with("inputs") {
            for f in std::fs::read_dir(&d).unwrap() {
                files.push(f.unwrap().path());
            }
        }
    }
    let mut texts: Vec<String> = files.iter().filter_map(|f| std::fs::read_to_string(f).ok()).collect();
    for c in crate::gen::f_stmt() { texts.push(c.text); }
    let (mut ok, mut bad_tok, mut bad_vis, mut unparsed) = (0, 0, 0, 0);
    for t in &texts {
        let ast = match full_moon::parse_fallible(t, full_moon::LuaVersion::new()).into_result() { Ok(a) => a, Err(_) => { unparsed += 1; continue } };
        let mut s = String::new();
        let mut seq = vec![];
        for tk in ast.nodes().tokens() { s.push_str(&tk.to_string()); seq.push(tk.to_string()); }
        s.push_str(&ast.eof().to_string()); seq.push(ast.eof().to_string());
        if s != ast.to_string() { bad_tok += 1; if bad_tok < 4 { eprintln!("tokens() order differs: {:?}\n  {:?}\n  {:?}", &t[..t.len().min(80)], &s[..s.len().min(120)], seq.iter().take(12).collect::<Vec<_>>()); } continue; }
        let mut n = Num(vec![]);
        let _ = n.visit_ast(ast.clone());
        seq.pop();
        if n.0 != seq { bad_vis += 1; if bad_vis < 4 { eprintln!("visit_mut order differs: {:?}\n {:?}\n {:?}", &t[..t.len().min(80)], n.0.iter().take(12).collect::<Vec<_>>(), seq.iter().take(12).collect::<Vec<_>>()); } continue; }
        ok += 1;
    }
    println!("ok={} bad_tokens_order={} bad_visit_order={} unparsed={}", ok, bad_tok, bad_vis, unparsed);
}
pub fn dump(path: &str) {
    let t = std::fs::read_to_string(path).unwrap();
    let ast = full_moon::parse_fallible(&t, full_moon::LuaVersion::new()).into_result().unwrap();
    for tk in ast.nodes().tokens() {
        println!("{:?} lead={:?} trail={:?}", tk.token().to_string(), tk.leading_trivia().map(|x| x.to_string()).collect::<Vec<_>>(), tk.trailing_trivia().map(|x| x.to_string()).collect::<Vec<_>>());
    }
}
