//! E1: explicit-state explorer of the real `stylua_lib::format_code`.
//! state = (program, configuration, width, range); transition = one call of the library; invariants = oracles.

use crate::cfg::{Cfg, Syn};
use crate::gen::Case;
use crate::{lex, nf};
use std::collections::{BTreeMap, HashMap, HashSet};
use std::sync::atomic::{AtomicUsize, Ordering};
use std::sync::Mutex;
use std::time::{Duration, Instant};
use stylua_lib::{format_code, OutputVerification, Range};

pub const O_PARSE: u32 = 1;
pub const O_NF: u32 = 2;
pub const O_CENSUS: u32 = 4;
pub const O_TREE: u32 = 8;
pub const O_IDEM: u32 = 16;
pub const O_TOTAL: u32 = 32;
pub const O_LIT: u32 = 64;
pub const O_IGN: u32 = 128;
pub const O_WS: u32 = 256;
pub const O_OPTS: u32 = 512;
pub const O_SORT: u32 = 1024;
pub const O_RANGE: u32 = 2048;
/// not an oracle but a mode: call the library with OutputVerification::Full (its answer must still be the formatted program)
pub const O_VERIFY: u32 = 4096;

thread_local! {
    pub static IN_SUBJECT: std::cell::Cell<bool> = const { std::cell::Cell::new(false) };
    pub static VERIFY_MODE: std::cell::Cell<bool> = const { std::cell::Cell::new(false) };
}

#[derive(Clone, Debug)]
pub enum Out {
    Ok(String),
    ParseErr,
    OtherErr(String),
    Panic(String),
}

/// One entry per explorer thread: the library call it is inside, and since when. A library call that does not return
/// cannot be interrupted from inside the process; the watchdog thread reports it (with the input) and ends the process.
pub struct InFlight {
    pub since: Instant,
    pub text: String,
    pub cfg: Cfg,
    pub width: usize,
    pub range: Option<(Option<usize>, Option<usize>)>,
}
pub static IN_FLIGHT: Mutex<Vec<std::sync::Arc<Mutex<Option<InFlight>>>>> = Mutex::new(Vec::new());
thread_local! {
    static MY_SLOT: std::sync::Arc<Mutex<Option<InFlight>>> = {
        let a = std::sync::Arc::new(Mutex::new(None));
        IN_FLIGHT.lock().unwrap().push(a.clone());
        a
    };
}

/// the oldest library call that has been running for longer than `limit`, if any
pub fn stuck_call(limit: Duration) -> Option<(String, Cfg, usize, Option<(Option<usize>, Option<usize>)>, Duration)> {
    let slots = IN_FLIGHT.lock().unwrap();
    for s in slots.iter() {
        if let Some(e) = s.lock().unwrap().as_ref() {
            if e.since.elapsed() > limit {
                return Some((e.text.clone(), e.cfg, e.width, e.range, e.since.elapsed()));
            }
        }
    }
    None
}

pub fn run_format(text: &str, cfg: &Cfg, width: usize, range: Option<(Option<usize>, Option<usize>)>) -> (Out, Duration) {
    let config = cfg.to_config(width);
    let r = range.map(|(s, e)| Range::from_values(s, e));
    let t0 = Instant::now();
    MY_SLOT.with(|m| *m.lock().unwrap() = Some(InFlight { since: t0, text: text.to_string(), cfg: *cfg, width, range }));
    IN_SUBJECT.with(|f| f.set(true));
    let verification = if VERIFY_MODE.with(|v| v.get()) { OutputVerification::Full } else { OutputVerification::None };
    let res = std::panic::catch_unwind(std::panic::AssertUnwindSafe(|| format_code(text, config, r, verification)));
    IN_SUBJECT.with(|f| f.set(false));
    MY_SLOT.with(|m| *m.lock().unwrap() = None);
    let dt = t0.elapsed();
    let out = match res {
        Ok(Ok(s)) => Out::Ok(s),
        Ok(Err(stylua_lib::Error::ParseError(_))) => Out::ParseErr,
        Ok(Err(e)) => Out::OtherErr(format!("{:?}", e).chars().take(200).collect()),
        Err(p) => {
            let msg = if let Some(s) = p.downcast_ref::<&str>() {
                s.to_string()
            } else if let Some(s) = p.downcast_ref::<String>() {
                s.clone()
            } else {
                "panic".to_string()
            };
            Out::Panic(msg.chars().take(200).collect())
        }
    };
    (out, dt)
}

/// Width probe: format once at "almost infinite" width and read the largest width ever compared with it.
pub fn probe_u(text: &str, cfg: &Cfg, range: Option<(Option<usize>, Option<usize>)>) -> (Out, usize) {
    let _ = stylua_lib::verif::take_max_used_width();
    let (o, _) = run_format(text, cfg, usize::MAX - 1, range);
    let u = stylua_lib::verif::take_max_used_width();
    (o, u)
}

pub struct Info {
    pub parses: bool,
    pub lex_ok: bool,
    pub nf: String,
    pub stmt_starts: Vec<usize>,
    pub tok: Vec<String>,
    pub census: Vec<String>,
    pub lexed: Option<lex::Lexed>,
    pub ast: Option<full_moon::ast::Ast>,
}

pub fn analyse(text: &str, syn: Syn, keep_ast: bool) -> Info {
    // full_moon itself can panic (e.g. a 5.3 operator under Lua51): that counts as "does not parse"
    IN_SUBJECT.with(|f| f.set(true));
    let parsed = std::panic::catch_unwind(|| full_moon::parse_fallible(text, syn.to_fm()).into_result());
    IN_SUBJECT.with(|f| f.set(false));
    let parsed = match parsed {
        Ok(r) => r.map_err(|_| ()),
        Err(_) => Err(()),
    };
    let lexed = lex::lex(text).ok();
    let (parses, nfs, starts, ast) = match parsed {
        Ok(ast) => {
            let n = nf::nf_of(&ast, syn.modern(), syn.intfloat());
            (true, n.out, n.stmt_starts, if keep_ast { Some(ast) } else { None })
        }
        Err(_) => (false, String::new(), vec![], None),
    };
    let (tok, census) = match &lexed {
        Some(l) => (lex::tok_signature(l, syn.modern(), syn.intfloat()), lex::census(l)),
        None => (vec![], vec![]),
    };
    Info { parses, lex_ok: lexed.is_some(), nf: nfs, stmt_starts: starts, tok, census, lexed, ast }
}

#[derive(Clone, Debug)]
pub struct Failure {
    pub class: String,
    pub fam: &'static str,
    pub text: String,
    pub cfg: Cfg,
    pub width: usize,
    pub wmax: usize,
    pub nwidths: usize,
    /// every width at which this failure was observed
    pub widths: Vec<usize>,
    pub range: Option<(Option<usize>, Option<usize>)>,
    pub detail: String,
    pub output: String,
}

impl Failure {
    pub fn key(&self) -> String {
        let r = match self.range {
            None => String::new(),
            Some((s, e)) => format!(" range={:?}..{:?}", s, e),
        };
        format!("{}|{}{}|{}", self.class, self.cfg.key(), r, self.text)
    }
}

#[derive(Default, Clone)]
pub struct Stats {
    pub cases: usize,
    pub tasks: usize,
    pub transitions: usize,
    pub distinct_outputs: usize,
    pub nontrivial: usize,
    pub skipped_invalid: usize,
    pub parse_err_outcomes: usize,
    pub max_u: usize,
    pub widths_capped: usize,
    pub fam: BTreeMap<&'static str, (usize, usize)>, // family -> (cases, transitions)
    pub layouts: BTreeMap<&'static str, usize>,
    pub oracle_evals: BTreeMap<&'static str, usize>,
    pub machinery: BTreeMap<String, usize>,
    pub samples: Vec<String>,
    pub slowest_us: u128,
}

impl Stats {
    pub fn merge(&mut self, o: &Stats) {
        self.cases += o.cases;
        self.tasks += o.tasks;
        self.transitions += o.transitions;
        self.distinct_outputs += o.distinct_outputs;
        self.nontrivial += o.nontrivial;
        self.skipped_invalid += o.skipped_invalid;
        self.parse_err_outcomes += o.parse_err_outcomes;
        self.max_u = self.max_u.max(o.max_u);
        self.widths_capped += o.widths_capped;
        for (k, v) in &o.fam {
            let e = self.fam.entry(k).or_insert((0, 0));
            e.0 += v.0;
            e.1 += v.1;
        }
        for (k, v) in &o.layouts {
            *self.layouts.entry(k).or_insert(0) += v;
        }
        for (k, v) in &o.oracle_evals {
            *self.oracle_evals.entry(k).or_insert(0) += v;
        }
        for (k, v) in &o.machinery {
            *self.machinery.entry(k.clone()).or_insert(0) += v;
        }
        for s in &o.samples {
            if self.samples.len() < 12 {
                self.samples.push(s.clone());
            }
        }
        self.slowest_us = self.slowest_us.max(o.slowest_us);
    }
}

#[derive(Clone, Copy, Debug, PartialEq)]
pub enum Widths {
    /// every width 1..U-1 individually plus one representative >= U (exact by the width-quotient lemma)
    All,
    /// {1, U/2, U}
    Classes,
    /// only the representative >= U
    Wide,
    /// exactly these column widths (no claim about the others)
    Fixed(&'static [usize]),
}

#[derive(Clone, Copy, Debug, PartialEq)]
pub enum Ranges {
    None,
    /// every pair of range points (token starts / middles / ends) plus open-ended, inverted and out-of-bounds ranges
    TokenPoints,
    /// every byte pair
    AllBytes,
}

pub struct Plan {
    pub name: &'static str,
    pub cases: Vec<Case>,
    pub cfgs: Box<dyn Fn(&Case) -> Vec<Cfg> + Sync>,
    pub widths: Widths,
    pub ranges: Ranges,
    pub oracles: u32,
    /// cap on U above which widths fall back to classes (reported)
    pub u_cap: usize,
}

/// what `check_output` needs to know about the input
pub struct TaskCtx<'a> {
    pub case: &'a Case,
    pub cfg: &'a Cfg,
    pub input: &'a Info,
    pub full_nf: Option<&'a str>,
    pub oracles: u32,
    pub range: Option<(Option<usize>, Option<usize>)>,
    /// width of the transition being judged, and whether it is the representative of "every width >= U"
    pub cur_width: std::cell::Cell<usize>,
    pub is_wide: std::cell::Cell<bool>,
}

fn first_diff<T: PartialEq + std::fmt::Debug>(a: &[T], b: &[T]) -> String {
    for i in 0..a.len().max(b.len()) {
        if a.get(i) != b.get(i) {
            return format!("at {}: {:?} vs {:?}", i, a.get(i), b.get(i));
        }
    }
    "equal".into()
}

fn multiset_diff(a: &[String], b: &[String]) -> (Vec<String>, Vec<String>) {
    // (in a not in b, in b not in a)
    let mut ca: HashMap<&String, i32> = HashMap::new();
    for x in a {
        *ca.entry(x).or_insert(0) += 1;
    }
    for x in b {
        *ca.entry(x).or_insert(0) -= 1;
    }
    let mut lost = vec![];
    let mut extra = vec![];
    for (k, v) in ca {
        if v > 0 {
            lost.push(k.clone())
        } else if v < 0 {
            extra.push(k.clone())
        }
    }
    lost.sort();
    extra.sort();
    (lost, extra)
}

fn census_oracle(t: &TaskCtx, oi: &Info, st: &mut Stats, f: &mut Vec<(String, String)>) {
    *st.oracle_evals.entry("census").or_insert(0) += 1;
    if oi.census != t.input.census {
        let (lost, extra) = multiset_diff(&t.input.census, &oi.census);
        let class = if !lost.is_empty() && !extra.is_empty() {
            "comment-altered"
        } else if !lost.is_empty() {
            "comment-lost"
        } else {
            "comment-created"
        };
        f.push((class.into(), format!("lost {:?} extra {:?}", lost, extra)));
    }
    if !t.cfg.sort && t.oracles & O_NF == 0 && oi.tok != t.input.tok {
        f.push(("code-changed".into(), format!("non-comment token sequence differs {}", first_diff(&t.input.tok, &oi.tok))));
    }
}

/// Output-only oracles, evaluated once per distinct output of a (case, cfg).
pub fn check_output(t: &TaskCtx, out: &str, st: &mut Stats) -> Vec<(String, String)> {
    let mut f: Vec<(String, String)> = Vec::new();
    let syn = t.cfg.syn;
    let need_ast = t.oracles & (O_OPTS | O_SORT | O_IGN | O_RANGE) != 0;
    let oi = analyse(out, syn, need_ast);
    let parse_ok = oi.parses && oi.lex_ok;
    if t.oracles & O_PARSE != 0 {
        *st.oracle_evals.entry("parse").or_insert(0) += 1;
        if !parse_ok {
            f.push(("unparseable".into(), format!("output does not parse (parser ok={}, lexer ok={})", oi.parses, oi.lex_ok)));
        }
    }
    if !parse_ok {
        // everything else is defined on parsed output only; the C01 check owns this failure —
        // except the comment census, which only needs the independent lexer
        *st.machinery.entry("deferred-to-C01(unparseable output)".into()).or_insert(0) += 1;
        if t.oracles & O_CENSUS != 0 && oi.lex_ok {
            census_oracle(t, &oi, st, &mut f);
        }
        // ... and the literal oracle, which needs the lexer only; an output that cannot even be tokenised has lost a literal
        if t.oracles & O_LIT != 0 {
            *st.oracle_evals.entry("literals").or_insert(0) += 1;
            if oi.lex_ok {
                let lits = |v: &Vec<String>| v.iter().filter(|s| s.starts_with("s:") || s.starts_with("n:")).cloned().collect::<Vec<_>>();
                let (a, b) = (lits(&t.input.tok), lits(&oi.tok));
                if a != b {
                    f.push(("literal-value".into(), format!("literal values differ (output does not parse) {}", first_diff(&a, &b))));
                }
            } else {
                f.push(("literal-destroyed".into(), "the output cannot be tokenised (unterminated literal)".into()));
            }
        }
        return f;
    }
    if t.oracles & O_NF != 0 && !t.cfg.sort {
        *st.oracle_evals.entry("nf").or_insert(0) += 1;
        if oi.nf != t.input.nf {
            let a: Vec<&str> = t.input.nf.split('\x01').collect();
            let b: Vec<&str> = oi.nf.split('\x01').collect();
            f.push(("nf".into(), format!("normal form differs {}", first_diff(&a, &b))));
        }
        if oi.tok != t.input.tok {
            f.push(("tok".into(), format!("token sequence differs {}", first_diff(&t.input.tok, &oi.tok))));
        }
    }
    if t.oracles & O_CENSUS != 0 {
        census_oracle(t, &oi, st, &mut f);
    }
    if t.oracles & O_TREE != 0 {
        if let Some(fnf) = t.full_nf {
            *st.oracle_evals.entry("tree").or_insert(0) += 1;
            if oi.nf != fnf {
                let a: Vec<&str> = fnf.split('\x01').collect();
                let b: Vec<&str> = oi.nf.split('\x01').collect();
                f.push(("tree".into(), format!("operator tree differs from the generator's {}", first_diff(&a, &b))));
            }
            if oi.tok != t.input.tok {
                f.push(("tok".into(), format!("token sequence differs {}", first_diff(&t.input.tok, &oi.tok))));
            }
        } else {
            // no generator tree (F-TRUNC): compare with the input's normal form, which keeps truncation markers
            *st.oracle_evals.entry("tree").or_insert(0) += 1;
            if oi.nf != t.input.nf {
                let a: Vec<&str> = t.input.nf.split('\x01').collect();
                let b: Vec<&str> = oi.nf.split('\x01').collect();
                f.push(("tree".into(), format!("normal form differs {}", first_diff(&a, &b))));
            }
        }
    }
    if t.oracles & O_LIT != 0 {
        *st.oracle_evals.entry("literals").or_insert(0) += 1;
        let lits = |v: &Vec<String>| v.iter().filter(|s| s.starts_with("s:") || s.starts_with("n:")).cloned().collect::<Vec<_>>();
        let (a, b) = (lits(&t.input.tok), lits(&oi.tok));
        if a != b {
            f.push(("literal-value".into(), format!("literal values differ {}", first_diff(&a, &b))));
        }
    }
    crate::props::check_output_more(t, out, &oi, st, &mut f);
    f
}

pub fn layout_sig(out: &str) -> &'static str {
    let lines = out.lines().count();
    if lines <= 1 {
        "single-line"
    } else if out.lines().any(|l| {
        let t = l.trim_start();
        t.starts_with("and ") || t.starts_with("or ") || t.starts_with("..") || t.starts_with("+ ") || t.starts_with("== ") || t.starts_with("* ")
            || t.starts_with("- ") || t.starts_with("< ") || t.starts_with("^ ") || t.starts_with("| ") || t.starts_with("& ")
    }) {
        "hung-binop"
    } else {
        "multi-line"
    }
}

pub fn range_points(text: &str) -> Vec<usize> {
    let mut pts: HashSet<usize> = HashSet::new();
    pts.insert(0);
    pts.insert(text.len());
    if let Ok(l) = lex::lex(text) {
        for (_, s, e) in &l.toks {
            pts.insert(*s);
            pts.insert(*e);
            if e - s > 1 {
                pts.insert(s + (e - s) / 2);
            }
            if *e > 0 {
                pts.insert(e - 1);
            }
        }
        for (_, s, e) in &l.comments {
            pts.insert(*s);
            pts.insert(*e);
        }
    }
    let mut v: Vec<usize> = pts.into_iter().collect();
    v.sort();
    v
}

pub fn ranges_for(text: &str, mode: Ranges) -> Vec<Option<(Option<usize>, Option<usize>)>> {
    let mut v = vec![];
    let pts: Vec<usize> = match mode {
        Ranges::None => return vec![None],
        Ranges::TokenPoints => range_points(text),
        Ranges::AllBytes => (0..=text.len()).collect(),
    };
    for (i, s) in pts.iter().enumerate() {
        for e in &pts[i..] {
            v.push(Some((Some(*s), Some(*e))));
        }
        v.push(Some((Some(*s), None)));
        v.push(Some((None, Some(*s))));
    }
    let n = text.len();
    // inverted, out of bounds
    if n >= 2 {
        v.push(Some((Some(n - 1), Some(1))));
        v.push(Some((Some(n), Some(0))));
    }
    v.push(Some((Some(n + 1), Some(n + 100))));
    v.push(Some((Some(0), Some(usize::MAX))));
    v.push(Some((Some(usize::MAX), Some(usize::MAX))));
    v.push(Some((Some(n + 100), None)));
    v
}

pub struct RunResult {
    pub stats: Stats,
    pub failures: Vec<Failure>,
}

pub fn run_plan(plan: &Plan, threads: usize, deadline: Option<Instant>) -> RunResult {
    // build the task list
    let mut tasks: Vec<(usize, Cfg)> = Vec::new();
    for (i, c) in plan.cases.iter().enumerate() {
        for cfg in (plan.cfgs)(c) {
            tasks.push((i, cfg));
        }
    }
    let next = AtomicUsize::new(0);
    let total = Mutex::new((Stats::default(), Vec::<Failure>::new()));
    let timed_out = AtomicUsize::new(0);
    std::thread::scope(|sc| {
        for _ in 0..threads {
            sc.spawn(|| {
                let mut st = Stats::default();
                let mut fails: Vec<Failure> = Vec::new();
                loop {
                    let k = next.fetch_add(1, Ordering::Relaxed);
                    if k >= tasks.len() {
                        break;
                    }
                    if let Some(d) = deadline {
                        if Instant::now() > d {
                            timed_out.fetch_add(1, Ordering::Relaxed);
                            break;
                        }
                    }
                    let (ci, cfg) = &tasks[k];
                    run_task(plan, &plan.cases[*ci], cfg, &mut st, &mut fails);
                }
                let mut g = total.lock().unwrap();
                g.0.merge(&st);
                g.1.extend(fails);
            });
        }
    });
    let (mut stats, failures) = total.into_inner().unwrap();
    stats.cases = plan.cases.len();
    let to = timed_out.load(Ordering::Relaxed);
    if to > 0 {
        *stats.machinery.entry(format!("plan {} stopped at the wall-clock cap with {} of {} tasks unexplored", plan.name, tasks.len().saturating_sub(next.load(Ordering::Relaxed).min(tasks.len())) + to, tasks.len())).or_insert(0) += 1;
    }
    RunResult { stats, failures }
}

fn record(
    fails: &mut Vec<Failure>,
    seen: &mut HashMap<String, usize>,
    class: &str,
    case: &Case,
    cfg: &Cfg,
    width: usize,
    range: Option<(Option<usize>, Option<usize>)>,
    detail: String,
    output: &str,
) {
    let k = format!("{}|{:?}", class, range);
    if let Some(idx) = seen.get(&k) {
        fails[*idx].nwidths += 1;
        fails[*idx].wmax = fails[*idx].wmax.max(width);
        fails[*idx].widths.push(width);
        return;
    }
    seen.insert(k, fails.len());
    fails.push(Failure {
        class: class.to_string(),
        fam: case.fam,
        text: case.text.clone(),
        cfg: *cfg,
        width,
        wmax: width,
        nwidths: 1,
        widths: vec![width],
        range,
        detail,
        output: output.chars().take(600).collect(),
    });
}

pub fn run_task(plan: &Plan, case: &Case, cfg: &Cfg, st: &mut Stats, fails: &mut Vec<Failure>) {
    VERIFY_MODE.with(|v| v.set(plan.oracles & O_VERIFY != 0));
    run_task_inner(plan, case, cfg, st, fails);
    VERIFY_MODE.with(|v| v.set(false));
}

fn run_task_inner(plan: &Plan, case: &Case, cfg: &Cfg, st: &mut Stats, fails: &mut Vec<Failure>) {
    st.tasks += 1;
    let need_ast = plan.oracles & (O_OPTS | O_SORT | O_IGN | O_RANGE) != 0;
    let input = analyse(&case.text, cfg.syn, need_ast);
    if !input.parses {
        // the family does not claim validity under every syntax; count and skip (never a verdict) —
        // except that C07 wants to see what the library says about it
        st.skipped_invalid += 1;
        if plan.oracles & O_TOTAL != 0 {
            // without a range, and with an ordinary, an inverted, an empty, an out-of-bounds and two one-sided ranges: the answer
            // for text that does not parse is a parse error, whatever the range says
            let n = case.text.len();
            let ranges: [Option<(Option<usize>, Option<usize>)>; 7] =
                [None, Some((Some(0), Some(n))), Some((Some(10), Some(2))), Some((Some(0), Some(0))), Some((Some(n + 10), Some(n + 20))), Some((Some(1), None)), Some((None, Some(1)))];
            let mut seen = HashMap::new();
            for range in ranges {
                let (o, dt) = run_format(&case.text, cfg, 120, range);
                st.transitions += 1;
                st.slowest_us = st.slowest_us.max(dt.as_micros());
                match o {
                    Out::ParseErr => st.parse_err_outcomes += 1,
                    Out::Ok(s) => record(fails, &mut seen, "false-success", case, cfg, 120, range, "library returned Ok for text the parser rejects".into(), &s),
                    Out::OtherErr(e) => record(fails, &mut seen, "wrong-error", case, cfg, 120, range, e, ""),
                    Out::Panic(m) => record(fails, &mut seen, "panic", case, cfg, 120, range, m, ""),
                }
            }
        }
        return;
    }
    if !input.lex_ok {
        *st.machinery.entry("O-LEX rejects an input the parser accepts (case skipped)".into()).or_insert(0) += 1;
        return;
    }
    let full_nf_owned: Option<String> = if plan.oracles & O_TREE != 0 {
        match &case.meta.full {
            Some(ft) => {
                let fi = analyse(ft, cfg.syn, false);
                if !fi.parses || fi.nf != input.nf {
                    // generator / parser conformance: the generator's own tree disagrees with the parser on the INPUT
                    *st.machinery.entry("generator tree != parser tree on input (case skipped)".into()).or_insert(0) += 1;
                    return;
                }
                Some(fi.nf)
            }
            None => None,
        }
    } else {
        None
    };
    let fe = st.fam.entry(case.fam).or_insert((0, 0));
    fe.0 += 1;
    let ranges = ranges_for(&case.text, plan.ranges);
    let base_len = fails.len();
    let mut seen_fail: HashMap<String, usize> = HashMap::new();
    // re-index `seen_fail` relative to this task only
    let mut task_fails: Vec<Failure> = Vec::new();
    for range in ranges {
        let tctx = TaskCtx {
            case,
            cfg,
            input: &input,
            full_nf: full_nf_owned.as_deref(),
            oracles: plan.oracles,
            range,
            cur_width: std::cell::Cell::new(0),
            is_wide: std::cell::Cell::new(false),
        };
        // width set
        let (o_inf, u) = probe_u(&case.text, cfg, range);
        st.transitions += 1;
        st.max_u = st.max_u.max(u);
        let mut widths: Vec<usize> = match plan.widths {
            Widths::Wide => vec![],
            Widths::Fixed(ws) => ws.to_vec(),
            Widths::Classes => {
                let mut v = vec![1];
                if u / 2 > 1 {
                    v.push(u / 2)
                }
                v
            }
            Widths::All => {
                if u > plan.u_cap {
                    st.widths_capped += 1;
                    let mut v: Vec<usize> = (1..u).step_by((u / 40).max(1)).collect();
                    if u > 1 {
                        v.push(u - 1);
                    }
                    v
                } else {
                    (1..u).collect()
                }
            }
        };
        if !matches!(plan.widths, Widths::Fixed(_)) {
            widths.push(u.max(1));
        }
        widths.dedup();
        let mut outputs: HashMap<String, usize> = HashMap::new();
        let _ = o_inf;
        for w in widths {
            let (o, dt) = run_format(&case.text, cfg, w, range);
            st.transitions += 1;
            st.fam.get_mut(case.fam).unwrap().1 += 1;
            st.slowest_us = st.slowest_us.max(dt.as_micros());
            let limit = Duration::from_millis(5000.max(2 * case.text.len() as u64));
            if plan.oracles & O_TOTAL != 0 && dt > limit {
                record(&mut task_fails, &mut seen_fail, "slow", case, cfg, w, range, format!("{} ms for {} bytes", dt.as_millis(), case.text.len()), "");
            }
            let out = match o {
                Out::Ok(s) => s,
                Out::ParseErr => {
                    if plan.oracles & O_TOTAL != 0 {
                        record(&mut task_fails, &mut seen_fail, "false-parse-error", case, cfg, w, range, "library reports a parse error for text the parser accepts".into(), "");
                    }
                    continue;
                }
                Out::OtherErr(e) => {
                    // (with the library's own verification switched on, a verification error is that step doing its
                    // conservative job — only a panic or a hang is judged in that mode)
                    if plan.oracles & O_TOTAL != 0 && plan.oracles & O_VERIFY == 0 {
                        record(&mut task_fails, &mut seen_fail, "wrong-error", case, cfg, w, range, e, "");
                    }
                    continue;
                }
                Out::Panic(m) => {
                    if plan.oracles & O_TOTAL != 0 {
                        record(&mut task_fails, &mut seen_fail, "panic", case, cfg, w, range, m, "");
                    } else {
                        *st.machinery.entry("deferred-to-C07(panic)".into()).or_insert(0) += 1;
                    }
                    continue;
                }
            };
            let is_new = !outputs.contains_key(&out);
            if is_new {
                outputs.insert(out.clone(), w);
                st.distinct_outputs += 1;
                if out != case.text {
                    st.nontrivial += 1;
                }
                *st.layouts.entry(layout_sig(&out)).or_insert(0) += 1;
                tctx.cur_width.set(w);
                tctx.is_wide.set(w >= u.max(1));
                for (class, detail) in check_output(&tctx, &out, st) {
                    record(&mut task_fails, &mut seen_fail, &class, case, cfg, w, range, detail, &out);
                }
                if st.samples.len() < 3 && st.tasks % 97 == 1 {
                    st.samples.push(format!("{} | {} w={} range={:?} -> {}", case.text.escape_debug(), cfg.key(), w, range, out.escape_debug()));
                }
            } else {
                // same output as at another width: output oracles already evaluated; count widths for known failures
                for fl in task_fails.iter_mut() {
                    if fl.range == range && fl.output == out.chars().take(600).collect::<String>() {
                        fl.nwidths += 1;
                        fl.wmax = fl.wmax.max(w);
                        fl.widths.push(w);
                    }
                }
            }
            if plan.oracles & O_IDEM != 0 && range.is_none() {
                *st.oracle_evals.entry("idem").or_insert(0) += 1;
                let (o2, _) = run_format(&out, cfg, w, None);
                st.transitions += 1;
                match o2 {
                    Out::Ok(s2) => {
                        if s2 != out {
                            // continue to a fixpoint (bounded) to classify
                            let mut cur = s2.clone();
                            let mut steps = 2;
                            let mut fixed = false;
                            while steps < 5 {
                                match run_format(&cur, cfg, w, None).0 {
                                    Out::Ok(n) => {
                                        st.transitions += 1;
                                        if n == cur {
                                            fixed = true;
                                            break;
                                        }
                                        cur = n;
                                    }
                                    _ => break,
                                }
                                steps += 1;
                            }
                            record(
                                &mut task_fails,
                                &mut seen_fail,
                                "not-idempotent",
                                case,
                                cfg,
                                w,
                                range,
                                format!("second pass differs (fixpoint after {} passes: {}); second pass: {}", steps, fixed, s2.escape_debug().to_string().chars().take(300).collect::<String>()),
                                &out,
                            );
                        }
                    }
                    Out::ParseErr => { /* C01's business */ }
                    Out::OtherErr(_) => {}
                    Out::Panic(m) => {
                        if plan.oracles & O_TOTAL != 0 {
                            record(&mut task_fails, &mut seen_fail, "panic-second-pass", case, cfg, w, range, m, &out);
                        }
                    }
                }
            }
        }
        if plan.ranges != Ranges::None {
            crate::props::check_range_task(&tctx, &outputs, st, &mut task_fails, &mut seen_fail);
        }
    }
    let _ = base_len;
    fails.extend(task_fails);
}
