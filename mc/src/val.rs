//! O-VAL: literal decoders written from the Lua reference manual (no StyLua / full_moon code involved).

fn utf8_ext(mut cp: u32, out: &mut Vec<u8>) {
    // Lua's extended UTF-8 (up to 2^31)
    if cp < 0x80 {
        out.push(cp as u8);
        return;
    }
    let mut buf = [0u8; 8];
    let mut n = 0;
    let mut mfb: u32 = 0x3f;
    loop {
        buf[n] = 0x80 | (cp & 0x3f) as u8;
        n += 1;
        cp >>= 6;
        mfb >>= 1;
        if cp <= mfb {
            break;
        }
    }
    buf[n] = (((!mfb) << 1) as u8) | cp as u8;
    n += 1;
    for k in (0..n).rev() {
        out.push(buf[k]);
    }
}

/// Decode the raw body of a quoted string. `modern` = Lua 5.2+/Luau escapes (\x \z \u); otherwise Lua 5.1,
/// where an unknown escape `\c` simply denotes `c`.
pub fn decode_quoted(b: &[u8], modern: bool) -> Vec<u8> {
    let mut o = Vec::with_capacity(b.len());
    let mut i = 0;
    while i < b.len() {
        let c = b[i];
        if c != b'\\' {
            o.push(c);
            i += 1;
            continue;
        }
        i += 1;
        if i >= b.len() {
            o.push(b'\\');
            break;
        }
        let e = b[i];
        match e {
            b'a' => { o.push(7); i += 1 }
            b'b' => { o.push(8); i += 1 }
            b'f' => { o.push(12); i += 1 }
            b'n' => { o.push(10); i += 1 }
            b'r' => { o.push(13); i += 1 }
            b't' => { o.push(9); i += 1 }
            b'v' => { o.push(11); i += 1 }
            b'\n' => {
                o.push(b'\n');
                i += 1;
                if b.get(i) == Some(&b'\r') { i += 1 }
            }
            b'\r' => {
                o.push(b'\n');
                i += 1;
                if b.get(i) == Some(&b'\n') { i += 1 }
            }
            b'0'..=b'9' => {
                let mut v: u32 = 0;
                let mut n = 0;
                while n < 3 && i < b.len() && b[i].is_ascii_digit() {
                    v = v * 10 + (b[i] - b'0') as u32;
                    i += 1;
                    n += 1;
                }
                o.push((v & 0xff) as u8);
                if v > 255 { o.push(0xfe); o.push((v >> 8) as u8) } // keep out-of-range escapes distinguishable
            }
            b'x' if modern => {
                let h = |c: u8| (c as char).to_digit(16);
                if let (Some(a), Some(c2)) = (b.get(i + 1).and_then(|c| h(*c)), b.get(i + 2).and_then(|c| h(*c))) {
                    o.push((a * 16 + c2) as u8);
                    i += 3;
                    continue;
                }
                // malformed: keep raw
                o.push(b'\\');
                o.push(b'x');
                i += 1;
            }
            b'z' if modern => {
                i += 1;
                while i < b.len() && matches!(b[i], b' ' | b'\t' | b'\n' | b'\r' | 0x0b | 0x0c) {
                    i += 1;
                }
            }
            b'u' if modern => {
                if b.get(i + 1) == Some(&b'{') {
                    let mut j = i + 2;
                    let mut v: u64 = 0;
                    let mut nd = 0;
                    while j < b.len() && (b[j] as char).is_digit(16) {
                        v = (v << 4) | (b[j] as char).to_digit(16).unwrap() as u64;
                        if v > 0x7fff_ffff { v = 0x7fff_ffff + 1 }
                        j += 1;
                        nd += 1;
                    }
                    if nd > 0 && b.get(j) == Some(&b'}') && v <= 0x7fff_ffff {
                        utf8_ext(v as u32, &mut o);
                        i = j + 1;
                        continue;
                    }
                }
                o.push(b'\\');
                o.push(b'u');
                i += 1;
            }
            _ => {
                // Lua 5.1 / Luau: `\c` denotes `c`
                o.push(e);
                i += 1;
            }
        }
    }
    o
}

/// Decode the raw body of a long-bracket string: first line break skipped, all line-break sequences -> \n.
pub fn decode_long(b: &[u8]) -> Vec<u8> {
    let mut i = 0;
    if b.first() == Some(&b'\r') {
        i = 1;
        if b.get(1) == Some(&b'\n') { i = 2 }
    } else if b.first() == Some(&b'\n') {
        i = 1;
        if b.get(1) == Some(&b'\r') { i = 2 }
    }
    let mut o = Vec::with_capacity(b.len());
    while i < b.len() {
        if b[i] == b'\r' {
            o.push(b'\n');
            i += 1;
            if b.get(i) == Some(&b'\n') { i += 1 }
        } else if b[i] == b'\n' {
            o.push(b'\n');
            i += 1;
            if b.get(i) == Some(&b'\r') { i += 1 }
        } else {
            o.push(b[i]);
            i += 1;
        }
    }
    o
}

/// Canonical key of a numeric literal. `intfloat` = dialect distinguishes integers from floats (5.3/5.4).
/// Falls back to the text modulo a leading zero when the spelling is outside the small grammar.
pub fn number_key(text: &str, intfloat: bool) -> String {
    let t: String = text.chars().filter(|c| *c != '_').collect();
    let lower = t.to_ascii_lowercase();
    // LuaJIT suffixes
    let (body, suffix) = if lower.ends_with("ull") {
        (&lower[..lower.len() - 3], "ull")
    } else if lower.ends_with("ll") {
        (&lower[..lower.len() - 2], "ll")
    } else if lower.ends_with('i') && !lower.starts_with("0x") {
        (&lower[..lower.len() - 1], "i")
    } else {
        (&lower[..], "")
    };
    let fallback = || {
        let mut s = lower.clone();
        if s.starts_with('.') { s.insert(0, '0') }
        format!("raw:{}", s)
    };
    if let Some(h) = body.strip_prefix("0x") {
        if h.contains('.') || h.contains('p') {
            // hex float
            let (mant, exp) = match h.split_once('p') {
                Some((m, e)) => (m, e.parse::<i32>().ok()),
                None => (h, Some(0)),
            };
            let exp = match exp { Some(e) => e, None => return fallback() };
            let (ip, fp) = match mant.split_once('.') { Some((a, b)) => (a, b), None => (mant, "") };
            let mut v = 0f64;
            for c in ip.chars() {
                match c.to_digit(16) { Some(d) => v = v * 16.0 + d as f64, None => return fallback() }
            }
            let mut scale = 1.0 / 16.0;
            for c in fp.chars() {
                match c.to_digit(16) { Some(d) => { v += d as f64 * scale; scale /= 16.0 } None => return fallback() }
            }
            return format!("f:{:016x}{}", (v * (2f64).powi(exp)).to_bits(), suffix);
        }
        if h.is_empty() || !h.chars().all(|c| c.is_digit(16)) { return fallback() }
        let d = h.trim_start_matches('0');
        // hex integers wrap modulo 2^64 in 5.3+, and are floats before; the digit string identifies both
        return format!("x:{}{}", if d.is_empty() { "0" } else { d }, suffix);
    }
    if let Some(bn) = body.strip_prefix("0b") {
        if bn.is_empty() || !bn.chars().all(|c| c == '0' || c == '1') { return fallback() }
        let d = bn.trim_start_matches('0');
        return format!("b:{}{}", if d.is_empty() { "0" } else { d }, suffix);
    }
    let is_float_syntax = body.contains('.') || body.contains('e');
    if !body.chars().all(|c| c.is_ascii_digit() || c == '.' || c == 'e' || c == '+' || c == '-') || body.is_empty() {
        return fallback();
    }
    if !is_float_syntax && intfloat {
        let d = body.trim_start_matches('0');
        // (decimal integers that overflow become floats in 5.3+: same digit string, same value)
        return format!("d:{}{}", if d.is_empty() { "0" } else { d }, suffix);
    }
    match body.parse::<f64>() {
        Ok(v) => format!("{}:{:016x}{}", if intfloat { "f" } else { "v" }, v.to_bits(), suffix),
        Err(_) => fallback(),
    }
}

#[cfg(test)]
mod tests {
    use super::*;
    #[test]
    fn strings() {
        assert_eq!(decode_quoted(br#"a\n\65\x41\u{48}\z   b\q"#, true), b"a\nAAHbq".to_vec());
        assert_eq!(decode_quoted(br#"\x41\z "#, false), b"x41z ".to_vec());
        assert_eq!(decode_long(b"\r\na\r\nb"), b"a\nb".to_vec());
    }
    #[test]
    fn numbers() {
        assert_eq!(number_key(".5", false), number_key("0.5", false));
        assert_eq!(number_key("1e3", false), number_key("1000", false));
        assert_ne!(number_key("1e3", true), number_key("1000", true));
        assert_eq!(number_key("0xFF", true), number_key("0x0ff", true));
        assert_eq!(number_key("0x.8p1", true), number_key("1.0", true));
        assert_eq!(number_key("1_000", false), number_key("1000", false));
    }
}
