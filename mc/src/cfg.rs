//! The configuration lattice (section 3 of DESIGN.md).
use stylua_lib::*;

#[derive(Clone, Copy, Debug, PartialEq, Eq, Hash, PartialOrd, Ord)]
pub enum Syn {
    All,
    Lua51,
    Lua52,
    Lua53,
    Lua54,
    LuaJIT,
    Luau,
}

impl Syn {
    pub fn name(self) -> &'static str {
        match self {
            Syn::All => "All",
            Syn::Lua51 => "Lua51",
            Syn::Lua52 => "Lua52",
            Syn::Lua53 => "Lua53",
            Syn::Lua54 => "Lua54",
            Syn::LuaJIT => "LuaJIT",
            Syn::Luau => "Luau",
        }
    }
    #[cfg(feature = "allsyn")]
    pub fn to_lib(self) -> LuaVersion {
        match self {
            Syn::All => LuaVersion::All,
            Syn::Lua51 => LuaVersion::Lua51,
            Syn::Lua52 => LuaVersion::Lua52,
            Syn::Lua53 => LuaVersion::Lua53,
            Syn::Lua54 => LuaVersion::Lua54,
            Syn::LuaJIT => LuaVersion::LuaJIT,
            Syn::Luau => LuaVersion::Luau,
        }
    }
    #[cfg(not(feature = "allsyn"))]
    pub fn to_lib(self) -> LuaVersion {
        match self {
            Syn::Lua51 => LuaVersion::Lua51,
            _ => LuaVersion::All,
        }
    }
    #[cfg(feature = "allsyn")]
    pub fn to_fm(self) -> full_moon::LuaVersion {
        match self {
            Syn::All => full_moon::LuaVersion::new(),
            Syn::Lua51 => full_moon::LuaVersion::lua51(),
            Syn::Lua52 => full_moon::LuaVersion::lua52(),
            Syn::Lua53 => full_moon::LuaVersion::lua53(),
            Syn::Lua54 => full_moon::LuaVersion::lua54(),
            Syn::LuaJIT => full_moon::LuaVersion::luajit(),
            Syn::Luau => full_moon::LuaVersion::luau(),
        }
    }
    #[cfg(not(feature = "allsyn"))]
    pub fn to_fm(self) -> full_moon::LuaVersion {
        match self {
            Syn::Lua51 => full_moon::LuaVersion::lua51(),
            _ => full_moon::LuaVersion::new(),
        }
    }
    /// Lua 5.2+ escape sequences are meaningful
    pub fn modern(self) -> bool {
        self != Syn::Lua51
    }
    /// the dialect distinguishes integer from float literals
    pub fn intfloat(self) -> bool {
        matches!(self, Syn::All | Syn::Lua53 | Syn::Lua54)
    }
    #[cfg(feature = "allsyn")]
    pub const ALL: &'static [Syn] = &[Syn::All, Syn::Lua51, Syn::Lua52, Syn::Lua53, Syn::Lua54, Syn::LuaJIT, Syn::Luau];
    #[cfg(not(feature = "allsyn"))]
    pub const ALL: &'static [Syn] = &[Syn::All, Syn::Lua51];
}

#[derive(Clone, Copy, Debug, PartialEq, Eq, Hash)]
pub struct Cfg {
    pub syn: Syn,
    pub le: u8,   // 0 unix 1 windows
    pub it: u8,   // 0 tabs 1 spaces
    pub iw: usize,
    pub qs: u8,   // 0 AutoPreferDouble 1 AutoPreferSingle 2 ForceDouble 3 ForceSingle
    pub cp: u8,   // 0 Always 1 NoSingleString 2 NoSingleTable 3 None 4 Input
    pub cs: u8,   // 0 Never 1 FunctionOnly 2 ConditionalOnly 3 Always
    pub sort: bool,
    pub safn: u8, // 0 Never 1 Definitions 2 Calls 3 Always
    pub ncp: bool, // deprecated no_call_parentheses
}

pub const QS_NAMES: [&str; 4] = ["AutoPreferDouble", "AutoPreferSingle", "ForceDouble", "ForceSingle"];
pub const CP_NAMES: [&str; 5] = ["Always", "NoSingleString", "NoSingleTable", "None", "Input"];
pub const CS_NAMES: [&str; 4] = ["Never", "FunctionOnly", "ConditionalOnly", "Always"];
pub const SAFN_NAMES: [&str; 4] = ["Never", "Definitions", "Calls", "Always"];

impl Default for Cfg {
    fn default() -> Self {
        Cfg { syn: Syn::All, le: 0, it: 0, iw: 4, qs: 0, cp: 0, cs: 0, sort: false, safn: 0, ncp: false }
    }
}

impl Cfg {
    pub fn with_syn(mut self, s: Syn) -> Self {
        self.syn = s;
        self
    }
    pub fn to_config(&self, width: usize) -> Config {
        let mut c = Config::default();
        c.syntax = self.syn.to_lib();
        c.column_width = width;
        c.line_endings = if self.le == 0 { LineEndings::Unix } else { LineEndings::Windows };
        c.indent_type = if self.it == 0 { IndentType::Tabs } else { IndentType::Spaces };
        c.indent_width = self.iw;
        c.quote_style = match self.qs {
            0 => QuoteStyle::AutoPreferDouble,
            1 => QuoteStyle::AutoPreferSingle,
            2 => QuoteStyle::ForceDouble,
            _ => QuoteStyle::ForceSingle,
        };
        c.call_parentheses = match self.cp {
            0 => CallParenType::Always,
            1 => CallParenType::NoSingleString,
            2 => CallParenType::NoSingleTable,
            3 => CallParenType::None,
            _ => CallParenType::Input,
        };
        c.collapse_simple_statement = match self.cs {
            0 => CollapseSimpleStatement::Never,
            1 => CollapseSimpleStatement::FunctionOnly,
            2 => CollapseSimpleStatement::ConditionalOnly,
            _ => CollapseSimpleStatement::Always,
        };
        c.sort_requires = SortRequiresConfig { enabled: self.sort };
        c.space_after_function_names = match self.safn {
            0 => SpaceAfterFunctionNames::Never,
            1 => SpaceAfterFunctionNames::Definitions,
            2 => SpaceAfterFunctionNames::Calls,
            _ => SpaceAfterFunctionNames::Always,
        };
        #[allow(deprecated)]
        {
            c.no_call_parentheses = self.ncp;
        }
        c
    }
    /// configuration key without the width (findings are identified by input, not by width)
    pub fn key(&self) -> String {
        format!(
            "syn={} le={} it={} iw={} qs={} cp={} cs={} sort={} safn={}{}",
            self.syn.name(),
            if self.le == 0 { "Unix" } else { "Windows" },
            if self.it == 0 { "Tabs" } else { "Spaces" },
            self.iw,
            QS_NAMES[self.qs as usize],
            CP_NAMES[self.cp as usize],
            CS_NAMES[self.cs as usize],
            self.sort,
            SAFN_NAMES[self.safn as usize],
            if self.ncp { " ncp" } else { "" }
        )
    }
    pub fn from_key(k: &str) -> Option<Cfg> {
        let mut c = Cfg::default();
        for part in k.split(' ') {
            if part == "ncp" {
                c.ncp = true;
                continue;
            }
            let (a, b) = part.split_once('=')?;
            match a {
                "syn" => c.syn = *Syn::ALL.iter().find(|s| s.name() == b)?,
                "le" => c.le = if b == "Unix" { 0 } else { 1 },
                "it" => c.it = if b == "Tabs" { 0 } else { 1 },
                "iw" => c.iw = b.parse().ok()?,
                "qs" => c.qs = QS_NAMES.iter().position(|n| *n == b)? as u8,
                "cp" => c.cp = CP_NAMES.iter().position(|n| *n == b)? as u8,
                "cs" => c.cs = CS_NAMES.iter().position(|n| *n == b)? as u8,
                "sort" => c.sort = b == "true",
                "safn" => c.safn = SAFN_NAMES.iter().position(|n| *n == b)? as u8,
                _ => return None,
            }
        }
        Some(c)
    }
}

/// syntaxes under which a program of dialect `d` is explored
pub fn syntaxes_for(d: crate::gen::Dial, thorough: bool) -> Vec<Syn> {
    use crate::gen::Dial;
    #[cfg(not(feature = "allsyn"))]
    {
        let _ = thorough;
        return match d {
            Dial::Core => vec![Syn::All, Syn::Lua51],
            _ => vec![],
        };
    }
    #[cfg(feature = "allsyn")]
    match (d, thorough) {
        (Dial::Core, false) => vec![Syn::All, Syn::Lua51],
        (Dial::Core, true) => Syn::ALL.to_vec(),
        (Dial::L52, false) => vec![Syn::Lua52],
        (Dial::L52, true) => vec![Syn::All, Syn::Lua52, Syn::Lua53, Syn::Lua54],
        (Dial::L53, false) => vec![Syn::Lua53],
        (Dial::L53, true) => vec![Syn::All, Syn::Lua53, Syn::Lua54],
        (Dial::L54, _) => vec![Syn::All, Syn::Lua54],
        (Dial::Jit, _) => vec![Syn::LuaJIT],
        (Dial::Luau, false) => vec![Syn::Luau],
        (Dial::Luau, true) => vec![Syn::All, Syn::Luau],
    }
}
