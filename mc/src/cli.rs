//! E2: explorer of the real `stylua` binary against reference models written here.
//! Every element of a finite space of (directory tree, argument vector, stdin, environment) is materialised in a
//! fresh scratch directory, the tree is snapshotted, the binary is run, and exit status / stdout / stderr / the new
//! snapshot are compared with what the model predicts. Expected bytes always come from the library in-process.

use crate::cfg::Cfg;
use crate::explore::{Failure, Stats};
use std::collections::BTreeMap;
use std::io::Write;
use std::os::unix::fs::{MetadataExt, PermissionsExt};
use std::path::{Path, PathBuf};
use std::process::{Command, Stdio};
use std::sync::atomic::{AtomicUsize, Ordering};
use std::sync::Mutex;

pub const BIN: &str = "/verif/target/cli/release/stylua";

#[derive(Clone, Debug, Default)]
pub struct Tree {
    /// (relative path, bytes); directories are created as needed; a path ending in '/' is an empty directory
    pub files: Vec<(String, Vec<u8>)>,
}
impl Tree {
    pub fn add(&mut self, p: &str, b: &[u8]) -> &mut Self {
        self.files.push((p.to_string(), b.to_vec()));
        self
    }
}

#[derive(Clone, Debug, Default)]
pub struct Run {
    pub argv: Vec<String>,
    pub stdin: Option<Vec<u8>>,
    /// working directory relative to the scratch root
    pub cwd: String,
    pub env: Vec<(String, String)>,
    /// paths (relative to root) to make immutable / special after the tree is written: (path, what)
    pub post: Vec<(String, String)>,
}

pub type Snapshot = BTreeMap<String, (Vec<u8>, i128, u64, u32)>;

#[derive(Debug)]
pub struct Outcome {
    pub code: i32,
    pub stdout: Vec<u8>,
    pub stderr: Vec<u8>,
    pub before: Snapshot,
    pub after: Snapshot,
    pub root: PathBuf,
}

pub fn scratch_root() -> PathBuf {
    std::env::temp_dir().join(format!("mc-e2-{}", std::process::id()))
}

fn snapshot(root: &Path) -> Snapshot {
    let mut m = Snapshot::new();
    fn walk(root: &Path, dir: &Path, m: &mut Snapshot) {
        let Ok(rd) = std::fs::read_dir(dir) else { return };
        for e in rd.flatten() {
            let p = e.path();
            let rel = p.strip_prefix(root).unwrap().to_string_lossy().to_string();
            let Ok(md) = std::fs::symlink_metadata(&p) else { continue };
            let mt = md.mtime() as i128 * 1_000_000_000 + md.mtime_nsec() as i128;
            if md.is_dir() {
                m.insert(format!("{}/", rel), (vec![], 0, md.ino(), md.mode()));
                walk(root, &p, m);
            } else {
                let bytes = std::fs::read(&p).unwrap_or_default();
                m.insert(rel, (bytes, mt, md.ino(), md.mode()));
            }
        }
    }
    walk(root, root, &mut m);
    m
}

/// The machinery must own the environment: no configuration file may be visible above the scratch root.
pub fn check_ancestors_clean() -> Result<(), String> {
    let root = scratch_root();
    let mut d: Option<&Path> = root.parent();
    while let Some(p) = d {
        for n in ["stylua.toml", ".stylua.toml", ".editorconfig", ".styluaignore", ".ignore", ".gitignore", ".git"] {
            if p.join(n).exists() {
                return Err(format!("{} exists above the scratch root", p.join(n).display()));
            }
        }
        d = p.parent();
    }
    Ok(())
}

pub fn execute(id: usize, tree: &Tree, run: &Run) -> Outcome {
    let root = scratch_root().join(format!("c{}", id));
    let _ = std::fs::remove_dir_all(&root);
    std::fs::create_dir_all(&root).unwrap();
    for (p, b) in &tree.files {
        let full = root.join(p);
        if p.ends_with('/') {
            std::fs::create_dir_all(&full).unwrap();
            continue;
        }
        if let Some(par) = full.parent() {
            std::fs::create_dir_all(par).unwrap();
        }
        std::fs::write(&full, b).unwrap();
    }
    std::fs::create_dir_all(root.join(&run.cwd)).unwrap();
    for (p, what) in &run.post {
        let full = root.join(p);
        match what.as_str() {
            "mode000" => {
                let _ = std::fs::set_permissions(&full, std::fs::Permissions::from_mode(0o000));
            }
            "immutable" => {
                let _ = Command::new("chattr").arg("+i").arg(&full).status();
            }
            _ => {}
        }
    }
    let before = snapshot(&root);
    let mut cmd = Command::new(BIN);
    cmd.args(&run.argv)
        .current_dir(root.join(&run.cwd))
        .env_clear()
        .env("PATH", "/usr/bin:/bin")
        .env("HOME", root.join("_home"))
        .env("XDG_CONFIG_HOME", root.join("_xdg"))
        .env("NO_COLOR", "1")
        .stdin(Stdio::piped())
        .stdout(Stdio::piped())
        .stderr(Stdio::piped());
    for (k, v) in &run.env {
        let v = v.replace("$ROOT", &root.to_string_lossy());
        cmd.env(k, v);
    }
    let mut child = cmd.spawn().expect("spawn stylua");
    {
        let mut si = child.stdin.take().unwrap();
        if let Some(b) = &run.stdin {
            let b = b.clone();
            // writer thread: large inputs must not deadlock against the output pipes
            std::thread::spawn(move || {
                let _ = si.write_all(&b);
            });
        }
    }
    let out = child.wait_with_output().expect("wait");
    let after = snapshot(&root);
    for (p, what) in &run.post {
        if what == "immutable" {
            let _ = Command::new("chattr").arg("-i").arg(root.join(p)).status();
        }
    }
    use std::os::unix::process::ExitStatusExt;
    let code = out.status.code().unwrap_or_else(|| 1000 + out.status.signal().unwrap_or(0));
    Outcome { code, stdout: out.stdout, stderr: out.stderr, before, after, root }
}

pub fn cleanup(o: &Outcome) {
    let _ = std::fs::remove_dir_all(&o.root);
}

/// library output for `text` under `cfg` at width `w`; None if it does not parse
pub fn lib_format(text: &str, cfg: &Cfg, w: usize) -> Option<String> {
    match crate::explore::run_format(text, cfg, w, None).0 {
        crate::explore::Out::Ok(s) => Some(s),
        _ => None,
    }
}

pub struct Scenario {
    /// deterministic description = identity of the case (findings are keyed on it)
    pub desc: String,
    pub tree: Tree,
    pub run: Run,
}

pub fn fail(fam: &'static str, class: &str, desc: &str, detail: String) -> Failure {
    Failure {
        class: class.to_string(),
        fam,
        text: desc.to_string(),
        cfg: Cfg::default(),
        width: 0,
        wmax: 0,
        nwidths: 1,
        range: None,
        detail,
        output: String::new(),
    }
}

/// run all scenarios in parallel; `judge` returns the failures of one scenario
pub fn run_all<F>(scs: Vec<Scenario>, fam: &'static str, stats: &mut Stats, judge: F) -> Vec<Failure>
where
    F: Fn(&Scenario, &Outcome) -> Vec<(String, String)> + Sync,
{
    let next = AtomicUsize::new(0);
    let fails: Mutex<Vec<Failure>> = Mutex::new(vec![]);
    let outcomes: Mutex<BTreeMap<String, usize>> = Mutex::new(BTreeMap::new());
    let samples: Mutex<Vec<String>> = Mutex::new(vec![]);
    let threads = std::thread::available_parallelism().map(|n| n.get()).unwrap_or(8);
    std::thread::scope(|sc| {
        for _ in 0..threads {
            sc.spawn(|| loop {
                let i = next.fetch_add(1, Ordering::Relaxed);
                if i >= scs.len() {
                    break;
                }
                let s = &scs[i];
                let o = execute(i, &s.tree, &s.run);
                let fs = judge(s, &o);
                {
                    let mut oc = outcomes.lock().unwrap();
                    *oc.entry(format!("exit={}", o.code)).or_insert(0) += 1;
                }
                if i % 997 == 3 {
                    let mut sm = samples.lock().unwrap();
                    if sm.len() < 4 {
                        sm.push(format!("{} -> exit {} stdout {:?}", s.desc, o.code, String::from_utf8_lossy(&o.stdout).chars().take(120).collect::<String>()));
                    }
                }
                cleanup(&o);
                if !fs.is_empty() {
                    let mut g = fails.lock().unwrap();
                    for (class, detail) in fs {
                        g.push(fail(fam, &class, &s.desc, detail));
                    }
                }
            });
        }
    });
    let _ = std::fs::remove_dir_all(scratch_root());
    stats.cases += scs.len();
    stats.tasks += scs.len();
    stats.transitions += scs.len();
    let e = stats.fam.entry(fam).or_insert((0, 0));
    e.0 += scs.len();
    e.1 += scs.len();
    for (k, v) in outcomes.into_inner().unwrap() {
        *stats.machinery.entry(format!("{}: distinct outcome {}", fam, k)).or_insert(0) += v;
    }
    for s in samples.into_inner().unwrap() {
        if stats.samples.len() < 12 {
            stats.samples.push(s);
        }
    }
    fails.into_inner().unwrap()
}

// ======================================================================================================== C18
/// own unified-diff applier: validates hunk headers against hunk bodies
pub fn apply_unified(original: &str, diff: &str) -> Result<String, String> {
    let olines: Vec<&str> = split_keep(original);
    let mut out = String::new();
    let mut oi = 0usize; // next original line (0-based)
    let dl: Vec<&str> = split_keep(diff);
    let mut i = 0;
    // headers
    while i < dl.len() && !dl[i].starts_with("@@") {
        if !(dl[i].starts_with("--- ") || dl[i].starts_with("+++ ")) {
            return Err(format!("unexpected line before the first hunk: {:?}", dl[i]));
        }
        i += 1;
    }
    while i < dl.len() {
        let h = dl[i].trim_end();
        // @@ -a[,b] +c[,d] @@
        let inner = h.strip_prefix("@@ -").and_then(|x| x.strip_suffix(" @@")).ok_or(format!("bad hunk header {:?}", h))?;
        let (l, r) = inner.split_once(" +").ok_or(format!("bad hunk header {:?}", h))?;
        let pr = |s: &str| -> Result<(usize, usize), String> {
            match s.split_once(',') {
                Some((a, b)) => Ok((a.parse().map_err(|_| "num")?, b.parse().map_err(|_| "num")?)),
                None => Ok((s.parse().map_err(|_| "num")?, 1)),
            }
        };
        let (os, ol) = pr(l)?;
        let (_ns, nl) = pr(r)?;
        i += 1;
        // copy unchanged lines before the hunk
        let start = if ol == 0 { os } else { os.saturating_sub(1) };
        if start < oi {
            return Err(format!("hunk {:?} overlaps the previous one", h));
        }
        while oi < start {
            out.push_str(olines.get(oi).ok_or("hunk starts beyond the end of the file")?);
            oi += 1;
        }
        let (mut seen_o, mut seen_n) = (0usize, 0usize);
        while i < dl.len() && !dl[i].starts_with("@@") {
            let line = dl[i];
            if line.starts_with('\\') {
                // "\ No newline at end of file": the previous line has no terminator
                if out.ends_with('\n') {
                    // only strip when the marker belongs to an added / context line that we copied with a newline
                }
                i += 1;
                continue;
            }
            let (tag, body) = line.split_at(1);
            // a following "\ No newline" marker means this line has no newline in the file
            let no_nl = dl.get(i + 1).map_or(false, |n| n.starts_with('\\'));
            let body_owned: String = if no_nl { body.trim_end_matches('\n').to_string() } else { body.to_string() };
            match tag {
                " " => {
                    let o = olines.get(oi).ok_or("context beyond the end of the file")?;
                    if *o != body_owned {
                        return Err(format!("context line mismatch at original line {}: {:?} vs {:?}", oi + 1, o, body_owned));
                    }
                    out.push_str(o);
                    oi += 1;
                    seen_o += 1;
                    seen_n += 1;
                }
                "-" => {
                    let o = olines.get(oi).ok_or("deletion beyond the end of the file")?;
                    if *o != body_owned {
                        return Err(format!("deleted line mismatch at original line {}: {:?} vs {:?}", oi + 1, o, body_owned));
                    }
                    oi += 1;
                    seen_o += 1;
                }
                "+" => {
                    out.push_str(&body_owned);
                    seen_n += 1;
                }
                _ => return Err(format!("bad hunk line {:?}", line)),
            }
            i += 1;
        }
        if seen_o != ol || seen_n != nl {
            return Err(format!("hunk header {:?} does not match its body ({} old, {} new lines)", h, seen_o, seen_n));
        }
    }
    while oi < olines.len() {
        out.push_str(olines[oi]);
        oi += 1;
    }
    Ok(out)
}

/// split into lines, keeping the terminators
pub fn split_keep(s: &str) -> Vec<&str> {
    let mut v = vec![];
    let mut start = 0;
    for (i, c) in s.char_indices() {
        if c == '\n' {
            v.push(&s[start..=i]);
            start = i + 1;
        }
    }
    if start < s.len() {
        v.push(&s[start..]);
    }
    v
}

/// apply the JSON mismatches as line-range replacements (0-based, inclusive; empty `original` = insertion before the line)
pub fn apply_json(original: &str, json_line: &str) -> Result<String, String> {
    let v: serde_json::Value = serde_json::from_str(json_line).map_err(|e| format!("not JSON: {}", e))?;
    let mm = v["mismatches"].as_array().ok_or("no mismatches array")?;
    let mut lines: Vec<String> = split_keep(original).into_iter().map(|s| s.to_string()).collect();
    let mut ops: Vec<(usize, usize, String, bool)> = vec![];
    for m in mm {
        let s = m["original_start_line"].as_u64().ok_or("original_start_line")? as usize;
        let e = m["original_end_line"].as_u64().ok_or("original_end_line")? as usize;
        let exp = m["expected"].as_str().ok_or("expected")?.to_string();
        let orig = m["original"].as_str().ok_or("original")?;
        ops.push((s, e, exp, orig.is_empty()));
    }
    ops.sort_by(|a, b| b.0.cmp(&a.0));
    for (s, e, exp, insert) in ops {
        if insert {
            if s > lines.len() {
                return Err("insertion beyond the end".into());
            }
            lines.insert(s, exp);
        } else {
            if e >= lines.len() || s > e {
                return Err(format!("range {}..={} outside the file ({} lines)", s, e, lines.len()));
            }
            lines.splice(s..=e, std::iter::once(exp));
        }
    }
    Ok(lines.concat())
}

pub const C18_LINES: &[&str] = &["x()\n", "x() x()\n", "x() x() x()\n", "  x()\n", "\n", "do\n", "end\n", "x()", "x()\r\n"];

pub fn c18_files(thorough: bool) -> Vec<String> {
    let mut v = vec![];
    fn rec(alpha: &[&str], n: usize, cur: &mut String, out: &mut Vec<String>) {
        out.push(cur.clone());
        if n == 0 {
            return;
        }
        for a in alpha {
            // a line without terminator can only be the last one
            if cur.ends_with("x()") && !cur.is_empty() && !cur.ends_with('\n') {
                continue;
            }
            let l = cur.len();
            cur.push_str(a);
            rec(alpha, n - 1, cur, out);
            cur.truncate(l);
        }
    }
    if thorough {
        rec(C18_LINES, 5, &mut String::new(), &mut v);
    } else {
        rec(C18_LINES, 3, &mut String::new(), &mut v);
        rec(&C18_LINES[..4], 4, &mut String::new(), &mut v);
    }
    v.sort();
    v.dedup();
    v
}

pub fn c18(thorough: bool, stats: &mut Stats) -> Vec<Failure> {
    let mut scs = vec![];
    let cfg = Cfg::default();
    for f in c18_files(thorough) {
        // only pairs that arise from programs
        let Some(_) = lib_format(&f, &cfg, 120) else { continue };
        for fmt in ["Unified", "Json", "Summary", "Standard"] {
            let mut t = Tree::default();
            t.add("f.lua", f.as_bytes());
            scs.push(Scenario {
                desc: format!("C18 file={:?} format={}", f, fmt),
                tree: t,
                run: Run { argv: vec!["--check".into(), "--color".into(), "Never".into(), "--output-format".into(), fmt.into(), "f.lua".into()], ..Run::default() },
            });
        }
    }
    run_all(scs, "E2-C18", stats, |s, o| {
        let mut f = vec![];
        let orig = String::from_utf8_lossy(&s.tree.files[0].1).to_string();
        let expected = lib_format(&orig, &Cfg::default(), 120).unwrap();
        let fmt = s.run.argv[4].as_str();
        let differs = orig != expected;
        let stdout = String::from_utf8_lossy(&o.stdout).to_string();
        let want_code = if differs { 1 } else { 0 };
        if o.code != want_code {
            f.push(("exit-status".into(), format!("exit {} but the file {} its formatted form", o.code, if differs { "differs from" } else { "equals" })));
        }
        match fmt {
            "Unified" => {
                if !differs {
                    if !stdout.is_empty() {
                        f.push(("diff-for-formatted-file".into(), "a diff is printed for an already formatted file".into()));
                    }
                } else if stdout.is_empty() {
                    f.push(("no-diff".into(), "no diff is printed although the file is not formatted".into()));
                } else {
                    match apply_unified(&orig, &stdout) {
                        Ok(r) if r == expected => {}
                        Ok(r) => f.push(("unified-does-not-reconstruct".into(), format!("applying the unified diff gives {:?}, formatted text is {:?}", r, expected))),
                        Err(e) => f.push(("unified-malformed".into(), e)),
                    }
                }
            }
            "Json" => {
                if !differs {
                    if !stdout.trim().is_empty() {
                        f.push(("diff-for-formatted-file".into(), "mismatches are printed for an already formatted file".into()));
                    }
                } else if stdout.trim().is_empty() {
                    f.push(("no-diff".into(), "no mismatch is printed although the file is not formatted".into()));
                } else {
                    match apply_json(&orig, stdout.trim()) {
                        Ok(r) if r == expected => {}
                        Ok(r) => f.push(("json-does-not-reconstruct".into(), format!("applying the JSON mismatches gives {:?}, formatted text is {:?}", r, expected))),
                        Err(e) => f.push(("json-malformed".into(), e)),
                    }
                }
            }
            "Summary" => {
                let listed = stdout.lines().any(|l| l.trim() == "f.lua");
                if listed != differs {
                    f.push(("summary-wrong".into(), format!("summary lists the file: {}, file differs: {}", listed, differs)));
                }
            }
            _ => {
                if differs == stdout.is_empty() {
                    f.push(("standard-diff-presence".into(), format!("standard diff printed: {}, file differs: {}", !stdout.is_empty(), differs)));
                }
            }
        }
        if o.before != o.after {
            f.push(("check-wrote".into(), "the tree changed in --check mode".into()));
        }
        f
    })
}

// ==================================================================================================== C13 / C14
#[derive(Clone, Copy, Debug, PartialEq, Eq, PartialOrd, Ord)]
pub enum Kind {
    Formatted,
    Unformatted,
    Unparseable,
    InvalidUtf8,
    Missing,
    VerifyFail,
    Crash,
    Immutable,
}
impl Kind {
    pub fn letter(self) -> char {
        match self {
            Kind::Formatted => 'F',
            Kind::Unformatted => 'U',
            Kind::Unparseable => 'P',
            Kind::InvalidUtf8 => 'I',
            Kind::Missing => 'M',
            Kind::VerifyFail => 'V',
            Kind::Crash => 'C',
            Kind::Immutable => 'W',
        }
    }
    pub fn bytes(self, i: usize) -> Vec<u8> {
        match self {
            Kind::Formatted => format!("local x{} = 1\n", i).into_bytes(),
            Kind::Unformatted | Kind::Immutable => format!("local   x{}  =  2\n", i).into_bytes(),
            Kind::Unparseable => format!("local x{} = = 1\n", i).into_bytes(),
            Kind::InvalidUtf8 => {
                let mut b = format!("local  s{} = \"", i).into_bytes();
                b.push(0xff);
                b.extend_from_slice(b"\"\n");
                b
            }
            Kind::Missing => vec![],
            Kind::VerifyFail => format!("--!verif:verify-fail\nlocal   v{}  =  3\n", i).into_bytes(),
            Kind::Crash => format!("--!verif:panic\nlocal   c{}  =  4\n", i).into_bytes(),
        }
    }
    pub fn fails(self) -> bool {
        !matches!(self, Kind::Formatted | Kind::Unformatted)
    }
}

fn multisets(alpha: &[Kind], n: usize, ordered: bool) -> Vec<Vec<Kind>> {
    let mut out = vec![];
    fn rec(alpha: &[Kind], n: usize, start: usize, ordered: bool, cur: &mut Vec<Kind>, out: &mut Vec<Vec<Kind>>) {
        if !cur.is_empty() {
            out.push(cur.clone());
        }
        if cur.len() == n {
            return;
        }
        for i in (if ordered { 0 } else { start })..alpha.len() {
            cur.push(alpha[i]);
            rec(alpha, n, i, ordered, cur, out);
            cur.pop();
        }
    }
    rec(alpha, n, 0, ordered, &mut vec![], &mut out);
    out
}

/// file names: a0.lua, sub/a1.lua ... depending on the layout
fn layout_paths(kinds: &[Kind], layout: &str) -> Vec<String> {
    kinds
        .iter()
        .enumerate()
        .map(|(i, _)| match layout {
            "flat" | "dir" => format!("a{}.lua", i),
            _ => {
                if i % 2 == 0 {
                    format!("a{}.lua", i)
                } else {
                    format!("sub/a{}.lua", i)
                }
            }
        })
        .collect()
}

pub fn c13(thorough: bool, stats: &mut Stats) -> Vec<Failure> {
    let alpha = [Kind::Formatted, Kind::Unformatted, Kind::Unparseable, Kind::InvalidUtf8, Kind::Missing];
    let mut scs = vec![];
    for ks in multisets(&alpha, if thorough { 4 } else { 3 }, false) {
        for layout in ["flat", "dir", "subdir"] {
            if layout != "flat" && ks.contains(&Kind::Missing) {
                continue;
            }
            for fmt in ["Standard", "Unified", "Json", "Summary"] {
                for verify in [false, true] {
                    for nt in [1usize, 4] {
                        if !thorough && verify && nt == 4 {
                            continue;
                        }
                        // every rotation of the argument order (explicit layout only)
                        let rots = if layout == "flat" { ks.len() } else { 1 };
                        for rot in 0..rots {
                            let paths = layout_paths(&ks, layout);
                            let mut t = Tree::default();
                            for (i, k) in ks.iter().enumerate() {
                                if *k != Kind::Missing {
                                    t.add(&paths[i], &k.bytes(i));
                                }
                            }
                            let mut argv: Vec<String> = vec!["--check".into(), "--color".into(), "Never".into(), "--output-format".into(), fmt.into(), "--num-threads".into(), nt.to_string()];
                            if verify {
                                argv.push("--verify".into());
                            }
                            if layout == "flat" {
                                let mut ps = paths.clone();
                                ps.rotate_left(rot);
                                argv.extend(ps);
                            } else {
                                argv.push(".".into());
                            }
                            let desc = format!(
                                "C13 kinds={} layout={} rot={} format={} verify={} threads={}",
                                ks.iter().map(|k| k.letter()).collect::<String>(),
                                layout,
                                rot,
                                fmt,
                                verify,
                                nt
                            );
                            scs.push(Scenario { desc, tree: t, run: Run { argv, ..Run::default() } });
                        }
                    }
                }
            }
        }
    }
    run_all(scs, "E2-C13", stats, |s, o| {
        let mut f = vec![];
        // recover the scenario from the description
        let kinds: Vec<char> = s.desc.split("kinds=").nth(1).unwrap().split(' ').next().unwrap().chars().collect();
        let fmt = s.desc.split("format=").nth(1).unwrap().split(' ').next().unwrap();
        if o.before != o.after {
            let changed: Vec<&String> = o.after.keys().filter(|k| o.before.get(*k) != o.after.get(*k)).chain(o.before.keys().filter(|k| !o.after.contains_key(*k))).collect();
            f.push(("check-wrote".into(), format!("--check modified / created / touched {:?}", changed)));
        }
        let any_fail = kinds.iter().any(|k| matches!(k, 'P' | 'I' | 'M'));
        let n_unf = kinds.iter().filter(|k| **k == 'U').count();
        let want = if any_fail { 2 } else if n_unf > 0 { 1 } else { 0 };
        if o.code != want {
            f.push(("exit-status".into(), format!("exit status {} but expected {} ({} failing, {} differing)", o.code, want, kinds.iter().filter(|k| matches!(k, 'P' | 'I' | 'M')).count(), n_unf)));
        }
        let stdout = String::from_utf8_lossy(&o.stdout).to_string();
        let reported: usize = match fmt {
            "Standard" => stdout.lines().filter(|l| l.starts_with("Diff in ")).count(),
            "Unified" => stdout.lines().filter(|l| *l == "--- old").count(),
            "Json" => {
                let mut n = 0;
                for l in stdout.lines().filter(|l| !l.trim().is_empty()) {
                    match serde_json::from_str::<serde_json::Value>(l) {
                        Ok(v) if v.get("mismatches").is_some() => n += 1,
                        Ok(_) => {}
                        Err(e) => f.push(("json-invalid".into(), format!("stdout line is not JSON: {} ({:?})", e, l.chars().take(60).collect::<String>()))),
                    }
                }
                n
            }
            _ => stdout.lines().filter(|l| l.trim_end().ends_with(".lua")).count(),
        };
        if reported != n_unf {
            f.push(("diff-set".into(), format!("{} files are reported as differing, {} differ", reported, n_unf)));
        }
        f
    })
}

pub fn c14(thorough: bool, stats: &mut Stats) -> Vec<Failure> {
    let alpha = [Kind::Unformatted, Kind::Formatted, Kind::Unparseable, Kind::VerifyFail, Kind::Crash, Kind::InvalidUtf8, Kind::Immutable];
    let mut scs = vec![];
    for ks in multisets(&alpha, if thorough { 4 } else { 3 }, true) {
        for layout in ["flat", "dir", "subdir"] {
            for verify in [false, true] {
                if ks.contains(&Kind::VerifyFail) && !verify {
                    continue; // without --verify nothing rejects the (deliberately wrong) output of the fault hook
                }
                for nt in [1usize, 4] {
                    if !thorough && nt == 4 && (layout == "subdir" || ks.len() < 2) {
                        continue;
                    }
                    let paths = layout_paths(&ks, layout);
                    let mut t = Tree::default();
                    let mut post = vec![];
                    for (i, k) in ks.iter().enumerate() {
                        t.add(&paths[i], &k.bytes(i));
                        if *k == Kind::Immutable {
                            post.push((paths[i].clone(), "immutable".to_string()));
                        }
                    }
                    let mut argv: Vec<String> = vec!["--color".into(), "Never".into(), "--num-threads".into(), nt.to_string()];
                    if verify {
                        argv.push("--verify".into());
                    }
                    if layout == "flat" {
                        argv.extend(paths.clone());
                    } else {
                        argv.push(".".into());
                    }
                    let desc = format!("C14 kinds={} layout={} verify={} threads={}", ks.iter().map(|k| k.letter()).collect::<String>(), layout, verify, nt);
                    scs.push(Scenario { desc, tree: t, run: Run { argv, env: vec![("STYLUA_VERIF_FAULTS".into(), "1".into())], post, ..Run::default() } });
                }
            }
        }
    }
    run_all(scs, "E2-C14", stats, |s, o| {
        let mut f = vec![];
        let kinds: Vec<char> = s.desc.split("kinds=").nth(1).unwrap().split(' ').next().unwrap().chars().collect();
        let any_fail = kinds.iter().any(|k| !matches!(k, 'U' | 'F'));
        let want = if any_fail { 2 } else { 0 };
        if o.code != want {
            f.push(("exit-status".into(), format!("exit status {} but expected {}", o.code, want)));
        }
        for (i, (p, b)) in s.tree.files.iter().enumerate() {
            let k = kinds[i];
            let Some(after) = o.after.get(p) else {
                f.push(("file-removed".into(), format!("{} no longer exists", p)));
                continue;
            };
            let before = &o.before[p];
            if k == 'U' {
                let want = lib_format(&String::from_utf8_lossy(b), &Cfg::default(), 120).unwrap();
                if after.0 != want.as_bytes() {
                    f.push(("not-formatted".into(), format!("{} (a healthy unformatted file) is {:?} after the run, expected {:?}", p, String::from_utf8_lossy(&after.0), want)));
                }
            } else {
                if after.0 != *b {
                    f.push(("failing-file-modified".into(), format!("{} (kind {}) changed: {:?}", p, k, String::from_utf8_lossy(&after.0).chars().take(80).collect::<String>())));
                }
                if k == 'F' && (after.1 != before.1 || after.2 != before.2) {
                    f.push(("formatted-file-rewritten".into(), format!("{} is already formatted but was rewritten (mtime / inode changed)", p)));
                }
            }
        }
        for k in o.after.keys() {
            if !o.before.contains_key(k) {
                f.push(("file-created".into(), format!("{} was created", k)));
            }
        }
        f
    })
}
