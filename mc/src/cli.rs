//! E2: explorer of the real `stylua` binary against reference models written here.
//! Every element of a finite space of (directory tree, argument vector, stdin, environment) is materialised in a
//! fresh scratch directory, the tree is snapshotted, the binary is run, and exit status / stdout / stderr / the new
//! snapshot are compared with what the model predicts. Expected bytes always come from the library in-process.

use crate::cfg::Cfg;
use crate::explore::{Failure, Stats};
use std::collections::BTreeMap;
use std::io::{Read, Write};
use std::os::unix::fs::{MetadataExt, PermissionsExt};
use std::path::{Path, PathBuf};
use std::process::{Command, Stdio};
use std::sync::atomic::{AtomicUsize, Ordering};
use std::sync::Mutex;

pub const BIN: &str = "/verif/target/cli/release/stylua";

#[derive(Clone, Debug, Default)]
pub struct Tree {
    /// (relative path, bytes); directories are created as needed; a path ending in '/' is an empty directory
    pub files: Vec<(String, Vec<u8>)>,
    /// symbolic links (relative path of the link, link text), created after the files
    pub links: Vec<(String, String)>,
}
impl Tree {
    pub fn add(&mut self, p: &str, b: &[u8]) -> &mut Self {
        self.files.push((p.to_string(), b.to_vec()));
        self
    }
    pub fn link(&mut self, p: &str, target: &str) -> &mut Self {
        self.links.push((p.to_string(), target.to_string()));
        self
    }
}

#[derive(Clone, Debug, Default)]
pub struct Run {
    pub argv: Vec<String>,
    pub stdin: Option<Vec<u8>>,
    /// working directory relative to the scratch root
    pub cwd: String,
    pub env: Vec<(String, String)>,
    /// paths (relative to root) to make immutable / special after the tree is written: (path, what)
    pub post: Vec<(String, String)>,
    /// run the binary as this user (the scratch tree is handed over to it first); None = the harness's own user
    pub uid: Option<u32>,
    /// earlier invocations of the binary in the same tree (same working directory and environment), executed before the
    /// "before" snapshot is taken: the observed run then starts from a state the program itself produced
    pub pre: Vec<Vec<String>>,
    /// the reader of the binary's stdout is gone before it writes anything (every write to stdout fails with a broken pipe)
    pub close_stdout: bool,
    /// wall-clock limit of the observed run in seconds (0 = the default of 120 s, or MC_RUN_TIMEOUT_S)
    pub limit_s: u64,
}

pub type Snapshot = BTreeMap<String, (Vec<u8>, i128, u64, u32)>;

#[derive(Debug)]
pub struct Outcome {
    pub code: i32,
    pub stdout: Vec<u8>,
    pub stderr: Vec<u8>,
    pub before: Snapshot,
    pub after: Snapshot,
    pub root: PathBuf,
}

fn ancestors_clean(dir: &Path) -> bool {
    let mut d: Option<&Path> = Some(dir);
    while let Some(p) = d {
        for n in ["stylua.toml", ".stylua.toml", ".editorconfig", ".styluaignore", ".ignore", ".gitignore", ".git"] {
            if p.join(n).exists() {
                return false;
            }
        }
        d = p.parent();
    }
    true
}

/// a run-private scratch directory outside /repo and /verif whose ancestors carry no configuration / ignore file
pub fn scratch_root() -> PathBuf {
    static ROOT: std::sync::OnceLock<PathBuf> = std::sync::OnceLock::new();
    ROOT.get_or_init(|| {
        let mut cands: Vec<PathBuf> = vec![std::env::temp_dir(), PathBuf::from("/tmp"), PathBuf::from("/var/tmp"), PathBuf::from("/dev/shm")];
        cands.retain(|c| c.is_dir() && !c.starts_with("/verif") && !c.starts_with("/repo"));
        let base = cands.iter().find(|c| ancestors_clean(c)).cloned().unwrap_or_else(std::env::temp_dir);
        base.join(format!("mc-e2-{}", std::process::id()))
    })
    .clone()
}

/// does `chattr +i` make a file unwritable here? (needs root and a file system that supports the attribute)
pub fn immutable_supported() -> bool {
    let root = scratch_root().join("probe-immutable");
    let _ = std::fs::create_dir_all(&root);
    let f = root.join("f");
    let _ = std::fs::write(&f, b"x");
    let ok = Command::new("chattr").arg("+i").arg(&f).stderr(Stdio::null()).status().map(|s| s.success()).unwrap_or(false);
    let blocked = ok && std::fs::write(&f, b"y").is_err();
    let _ = Command::new("chattr").arg("-i").arg(&f).stderr(Stdio::null()).status();
    let _ = std::fs::remove_dir_all(&root);
    blocked
}

fn snapshot(root: &Path) -> Snapshot {
    let mut m = Snapshot::new();
    fn walk(root: &Path, dir: &Path, m: &mut Snapshot) {
        let Ok(rd) = std::fs::read_dir(dir) else { return };
        for e in rd.flatten() {
            let p = e.path();
            let rel = p.strip_prefix(root).unwrap().to_string_lossy().to_string();
            let Ok(md) = std::fs::symlink_metadata(&p) else { continue };
            let mt = md.mtime() as i128 * 1_000_000_000 + md.mtime_nsec() as i128;
            if md.is_dir() {
                m.insert(format!("{}/", rel), (vec![], 0, md.ino(), md.mode()));
                walk(root, &p, m);
            } else {
                let bytes = std::fs::read(&p).unwrap_or_default();
                m.insert(rel, (bytes, mt, md.ino(), md.mode()));
            }
        }
    }
    walk(root, root, &mut m);
    m
}

/// The machinery must own the environment: no configuration file may be visible above the scratch root.
pub fn check_ancestors_clean() -> Result<(), String> {
    let root = scratch_root();
    let mut d: Option<&Path> = root.parent();
    while let Some(p) = d {
        for n in ["stylua.toml", ".stylua.toml", ".editorconfig", ".styluaignore", ".ignore", ".gitignore", ".git"] {
            if p.join(n).exists() {
                return Err(format!("{} exists above the scratch root", p.join(n).display()));
            }
        }
        d = p.parent();
    }
    Ok(())
}

pub fn execute(id: usize, tree: &Tree, run: &Run) -> Outcome {
    let root = scratch_root().join(format!("c{}", id));
    let _ = std::fs::remove_dir_all(&root);
    std::fs::create_dir_all(&root).unwrap();
    for (p, b) in &tree.files {
        let full = root.join(p);
        if p.ends_with('/') {
            std::fs::create_dir_all(&full).unwrap();
            continue;
        }
        if let Some(par) = full.parent() {
            std::fs::create_dir_all(par).unwrap();
        }
        std::fs::write(&full, b).unwrap();
    }
    std::fs::create_dir_all(root.join(&run.cwd)).unwrap();
    for (p, target) in &tree.links {
        let full = root.join(p);
        if let Some(par) = full.parent() {
            std::fs::create_dir_all(par).unwrap();
        }
        let _ = std::os::unix::fs::symlink(target, &full);
    }
    if let Some(u) = run.uid {
        fn give(p: &Path, u: u32) {
            let _ = std::os::unix::fs::chown(p, Some(u), Some(u));
            if p.is_dir() {
                if let Ok(rd) = std::fs::read_dir(p) {
                    for e in rd.flatten() {
                        give(&e.path(), u);
                    }
                }
            }
        }
        give(&root, u);
    }
    for (p, what) in &run.post {
        let full = root.join(p);
        match what.as_str() {
            "mode000" => {
                let _ = std::fs::set_permissions(&full, std::fs::Permissions::from_mode(0o000));
            }
            "mode444" => {
                let _ = std::fs::set_permissions(&full, std::fs::Permissions::from_mode(0o444));
            }
            "immutable" => {
                let _ = Command::new("chattr").arg("+i").arg(&full).status();
            }
            "latin1" => {
                // the last component's `é` (C3 A9 in UTF-8) becomes the single byte E9: a name that is not valid UTF-8
                use std::os::unix::ffi::{OsStrExt, OsStringExt};
                let name = full.file_name().unwrap().as_bytes().to_vec();
                let mut out = vec![];
                let mut i = 0;
                while i < name.len() {
                    if name[i] == 0xC3 && name.get(i + 1) == Some(&0xA9) {
                        out.push(0xE9);
                        i += 2;
                    } else {
                        out.push(name[i]);
                        i += 1;
                    }
                }
                let _ = std::fs::rename(&full, full.parent().unwrap().join(std::ffi::OsString::from_vec(out)));
            }
            _ => {}
        }
    }
    for pre in &run.pre {
        let argv: Vec<String> = pre.iter().map(|a| a.replace("$ROOT", &root.to_string_lossy())).collect();
        let mut c = Command::new(BIN);
        c.args(&argv)
            .current_dir(root.join(&run.cwd))
            .env_clear()
            .env("PATH", "/usr/bin:/bin")
            .env("HOME", root.join("_home"))
            .env("XDG_CONFIG_HOME", root.join("_xdg"))
            .env("NO_COLOR", "1")
            .stdin(Stdio::null())
            .stdout(Stdio::null())
            .stderr(Stdio::null());
        for (k, v) in &run.env {
            c.env(k, v.replace("$ROOT", &root.to_string_lossy()));
        }
        if let Some(u) = run.uid {
            use std::os::unix::process::CommandExt;
            c.uid(u).gid(u);
        }
        if let Ok(mut ch) = c.spawn() {
            let t0 = std::time::Instant::now();
            loop {
                match ch.try_wait() {
                    Ok(Some(_)) | Err(_) => break,
                    Ok(None) => {
                        if t0.elapsed() > std::time::Duration::from_secs(60) {
                            let _ = ch.kill();
                            let _ = ch.wait();
                            break;
                        }
                        std::thread::sleep(std::time::Duration::from_micros(300));
                    }
                }
            }
        }
        // make a rewrite by the observed run visible in the time stamp
        std::thread::sleep(std::time::Duration::from_millis(2));
    }
    let before = snapshot(&root);
    let mut cmd = Command::new(BIN);
    let argv: Vec<String> = run.argv.iter().map(|a| a.replace("$ROOT", &root.to_string_lossy())).collect();
    cmd.args(&argv)
        .current_dir(root.join(&run.cwd))
        .env_clear()
        .env("PATH", "/usr/bin:/bin")
        .env("HOME", root.join("_home"))
        .env("XDG_CONFIG_HOME", root.join("_xdg"))
        .env("NO_COLOR", "1")
        .stdin(Stdio::piped())
        .stdout(Stdio::piped())
        .stderr(Stdio::piped());
    for (k, v) in &run.env {
        let v = v.replace("$ROOT", &root.to_string_lossy());
        cmd.env(k, v);
    }
    if let Some(u) = run.uid {
        use std::os::unix::process::CommandExt;
        cmd.uid(u).gid(u);
    }
    if run.close_stdout {
        // a pipe whose read end is closed BEFORE the program starts: every write to stdout fails with a broken pipe, from the
        // first one on (closing the read end after the spawn races with the program's first write)
        let (r, w) = std::io::pipe().expect("pipe");
        drop(r);
        cmd.stdout(w);
    }
    let mut child = cmd.spawn().expect("spawn stylua");
    {
        let mut si = child.stdin.take().unwrap();
        if let Some(b) = &run.stdin {
            let b = b.clone();
            // writer thread: large inputs must not deadlock against the output pipes
            std::thread::spawn(move || {
                let _ = si.write_all(&b);
            });
        }
    }
    // the run must end: a binary that does not terminate is an observation (exit code 2000), not a reason to wait for ever
    let so = child.stdout.take();
    let mut se = child.stderr.take().unwrap();
    let h1 = std::thread::spawn(move || {
        let mut v = vec![];
        if let Some(mut so) = so {
            let _ = so.read_to_end(&mut v);
        }
        v
    });
    let h2 = std::thread::spawn(move || {
        let mut v = vec![];
        let _ = se.read_to_end(&mut v);
        v
    });
    let t0 = std::time::Instant::now();
    // 120 s, plus 60 s per MiB of input (the multi-megabyte stdin inputs take a while on a loaded machine)
    let per_mib = run.stdin.as_ref().map_or(0, |b| b.len() / (1024 * 1024)) as u64 * 60;
    let limit = std::time::Duration::from_secs(if run.limit_s > 0 { run.limit_s } else { std::env::var("MC_RUN_TIMEOUT_S").ok().and_then(|s| s.parse().ok()).unwrap_or(120) } + per_mib);
    let mut nap = 100u64;
    let status = loop {
        match child.try_wait() {
            Ok(Some(st)) => break Some(st),
            Ok(None) => {
                if t0.elapsed() > limit {
                    let _ = child.kill();
                    let _ = child.wait();
                    break None;
                }
                std::thread::sleep(std::time::Duration::from_micros(nap));
                nap = (nap * 2).min(5000);
            }
            Err(_) => break None,
        }
    };
    let stdout = h1.join().unwrap_or_default();
    let stderr = h2.join().unwrap_or_default();
    let after = snapshot(&root);
    for (p, what) in &run.post {
        if what == "immutable" {
            let _ = Command::new("chattr").arg("-i").arg(root.join(p)).status();
        }
    }
    use std::os::unix::process::ExitStatusExt;
    let code = match status {
        Some(st) => st.code().unwrap_or_else(|| 1000 + st.signal().unwrap_or(0)),
        None => TIMEOUT_CODE,
    };
    Outcome { code, stdout, stderr, before, after, root }
}

/// pseudo exit status of a run that had to be killed because it did not end within the limit
pub const TIMEOUT_CODE: i32 = 2000;

pub fn cleanup(o: &Outcome) {
    let _ = std::fs::remove_dir_all(&o.root);
}

/// library output for `text` under `cfg` at width `w`; None if it does not parse
pub fn lib_format(text: &str, cfg: &Cfg, w: usize) -> Option<String> {
    match crate::explore::run_format(text, cfg, w, None).0 {
        crate::explore::Out::Ok(s) => Some(s),
        _ => None,
    }
}

pub struct Scenario {
    /// deterministic description = identity of the case (findings are keyed on it)
    pub desc: String,
    pub tree: Tree,
    pub run: Run,
}

pub fn fail(fam: &'static str, class: &str, desc: &str, detail: String) -> Failure {
    Failure {
        class: class.to_string(),
        fam,
        text: desc.to_string(),
        cfg: Cfg::default(),
        width: 0,
        wmax: 0,
        nwidths: 1,
        widths: vec![0],
        range: None,
        detail,
        output: String::new(),
    }
}

/// run all scenarios in parallel; `judge` returns the failures of one scenario
pub fn run_all<F>(scs: Vec<Scenario>, fam: &'static str, stats: &mut Stats, judge: F) -> Vec<Failure>
where
    F: Fn(&Scenario, &Outcome) -> Vec<(String, String)> + Sync,
{
    // replay mode: only the scenario with the given description, verbosely
    let only = std::env::var("MC_ONLY_DESC").ok();
    let scs: Vec<Scenario> = match &only {
        Some(d) => scs.into_iter().filter(|s| &s.desc == d).collect(),
        None => scs,
    };
    let next = AtomicUsize::new(0);
    let fails: Mutex<Vec<Failure>> = Mutex::new(vec![]);
    let outcomes: Mutex<BTreeMap<String, usize>> = Mutex::new(BTreeMap::new());
    let samples: Mutex<Vec<String>> = Mutex::new(vec![]);
    let threads = std::thread::available_parallelism().map(|n| n.get()).unwrap_or(8);
    std::thread::scope(|sc| {
        for _ in 0..threads {
            sc.spawn(|| loop {
                let i = next.fetch_add(1, Ordering::Relaxed);
                if i >= scs.len() {
                    break;
                }
                let s = &scs[i];
                let o = execute(i, &s.tree, &s.run);
                let mut fs = judge(s, &o);
                if o.code == TIMEOUT_CODE {
                    fs.push(("no-termination".into(), "the run did not end within the limit and was killed".into()));
                }
                if only.is_some() {
                    println!("scenario: {}\ntree:", s.desc);
                    for (p, b) in &s.tree.files {
                        println!("  {} = {:?}", p, String::from_utf8_lossy(b).chars().take(200).collect::<String>());
                    }
                    println!("cwd: {:?}\nargv: {:?}\nexit status: {}\nstdout: {:?}\nstderr: {:?}", s.run.cwd, s.run.argv, o.code, String::from_utf8_lossy(&o.stdout).chars().take(2000).collect::<String>(), String::from_utf8_lossy(&o.stderr).chars().take(1000).collect::<String>());
                    println!("files after the run:");
                    for (p, v) in &o.after {
                        if !p.ends_with('/') {
                            println!("  {} = {:?}", p, String::from_utf8_lossy(&v.0).chars().take(200).collect::<String>());
                        }
                    }
                    println!("verdict of the oracle: {:?}", fs);
                }
                {
                    let mut oc = outcomes.lock().unwrap();
                    *oc.entry(format!("exit={}", o.code)).or_insert(0) += 1;
                }
                if i % 997 == 3 {
                    let mut sm = samples.lock().unwrap();
                    if sm.len() < 4 {
                        sm.push(format!("{} -> exit {} stdout {:?}", s.desc, o.code, String::from_utf8_lossy(&o.stdout).chars().take(120).collect::<String>()));
                    }
                }
                cleanup(&o);
                if !fs.is_empty() {
                    let mut g = fails.lock().unwrap();
                    for (class, detail) in fs {
                        g.push(fail(fam, &class, &s.desc, detail));
                    }
                }
            });
        }
    });
    let _ = std::fs::remove_dir_all(scratch_root());
    stats.cases += scs.len();
    stats.tasks += scs.len();
    stats.transitions += scs.len();
    let e = stats.fam.entry(fam).or_insert((0, 0));
    e.0 += scs.len();
    e.1 += scs.len();
    for (k, v) in outcomes.into_inner().unwrap() {
        *stats.machinery.entry(format!("{}: distinct outcome {}", fam, k)).or_insert(0) += v;
    }
    for s in samples.into_inner().unwrap() {
        if stats.samples.len() < 12 {
            stats.samples.push(s);
        }
    }
    fails.into_inner().unwrap()
}

// ======================================================================================================== C18
/// own unified-diff applier: validates hunk headers against hunk bodies
pub fn apply_unified(original: &str, diff: &str) -> Result<String, String> {
    let olines: Vec<&str> = split_keep(original);
    let mut out = String::new();
    let mut oi = 0usize; // next original line (0-based)
    let dl: Vec<&str> = split_keep(diff);
    let mut i = 0;
    // headers
    while i < dl.len() && !dl[i].starts_with("@@") {
        if !(dl[i].starts_with("--- ") || dl[i].starts_with("+++ ")) {
            return Err(format!("unexpected line before the first hunk: {:?}", dl[i]));
        }
        i += 1;
    }
    while i < dl.len() {
        let h = dl[i].trim_end();
        // @@ -a[,b] +c[,d] @@
        let inner = h.strip_prefix("@@ -").and_then(|x| x.strip_suffix(" @@")).ok_or(format!("bad hunk header {:?}", h))?;
        let (l, r) = inner.split_once(" +").ok_or(format!("bad hunk header {:?}", h))?;
        let pr = |s: &str| -> Result<(usize, usize), String> {
            match s.split_once(',') {
                Some((a, b)) => Ok((a.parse().map_err(|_| "num")?, b.parse().map_err(|_| "num")?)),
                None => Ok((s.parse().map_err(|_| "num")?, 1)),
            }
        };
        let (os, ol) = pr(l)?;
        let (_ns, nl) = pr(r)?;
        i += 1;
        // copy unchanged lines before the hunk
        let start = if ol == 0 { os } else { os.saturating_sub(1) };
        if start < oi {
            return Err(format!("hunk {:?} overlaps the previous one", h));
        }
        while oi < start {
            out.push_str(olines.get(oi).ok_or("hunk starts beyond the end of the file")?);
            oi += 1;
        }
        let (mut seen_o, mut seen_n) = (0usize, 0usize);
        while i < dl.len() && !dl[i].starts_with("@@") {
            let line = dl[i];
            if line.starts_with('\\') {
                // "\ No newline at end of file": the previous line has no terminator
                if out.ends_with('\n') {
                    // only strip when the marker belongs to an added / context line that we copied with a newline
                }
                i += 1;
                continue;
            }
            let (tag, body) = line.split_at(1);
            // a following "\ No newline" marker means this line has no newline in the file
            let no_nl = dl.get(i + 1).map_or(false, |n| n.starts_with('\\'));
            let body_owned: String = if no_nl { body.trim_end_matches('\n').to_string() } else { body.to_string() };
            match tag {
                " " => {
                    let o = olines.get(oi).ok_or("context beyond the end of the file")?;
                    if *o != body_owned {
                        return Err(format!("context line mismatch at original line {}: {:?} vs {:?}", oi + 1, o, body_owned));
                    }
                    out.push_str(o);
                    oi += 1;
                    seen_o += 1;
                    seen_n += 1;
                }
                "-" => {
                    let o = olines.get(oi).ok_or("deletion beyond the end of the file")?;
                    if *o != body_owned {
                        return Err(format!("deleted line mismatch at original line {}: {:?} vs {:?}", oi + 1, o, body_owned));
                    }
                    oi += 1;
                    seen_o += 1;
                }
                "+" => {
                    out.push_str(&body_owned);
                    seen_n += 1;
                }
                _ => return Err(format!("bad hunk line {:?}", line)),
            }
            i += 1;
        }
        if seen_o != ol || seen_n != nl {
            return Err(format!("hunk header {:?} does not match its body ({} old, {} new lines)", h, seen_o, seen_n));
        }
    }
    while oi < olines.len() {
        out.push_str(olines[oi]);
        oi += 1;
    }
    Ok(out)
}

/// split into lines, keeping the terminators
pub fn split_keep(s: &str) -> Vec<&str> {
    let mut v = vec![];
    let mut start = 0;
    for (i, c) in s.char_indices() {
        if c == '\n' {
            v.push(&s[start..=i]);
            start = i + 1;
        }
    }
    if start < s.len() {
        v.push(&s[start..]);
    }
    v
}

/// apply the JSON mismatches as line-range replacements (0-based, inclusive; empty `original` = insertion before the line)
pub fn apply_json(original: &str, json_line: &str) -> Result<String, String> {
    let v: serde_json::Value = serde_json::from_str(json_line).map_err(|e| format!("not JSON: {}", e))?;
    let mm = v["mismatches"].as_array().ok_or("no mismatches array")?;
    let mut lines: Vec<String> = split_keep(original).into_iter().map(|s| s.to_string()).collect();
    let mut ops: Vec<(usize, usize, String, bool)> = vec![];
    for m in mm {
        let s = m["original_start_line"].as_u64().ok_or("original_start_line")? as usize;
        let e = m["original_end_line"].as_u64().ok_or("original_end_line")? as usize;
        let exp = m["expected"].as_str().ok_or("expected")?.to_string();
        let orig = m["original"].as_str().ok_or("original")?;
        ops.push((s, e, exp, orig.is_empty()));
    }
    ops.sort_by(|a, b| b.0.cmp(&a.0));
    for (s, e, exp, insert) in ops {
        if insert {
            if s > lines.len() {
                return Err("insertion beyond the end".into());
            }
            lines.insert(s, exp);
        } else {
            if e >= lines.len() || s > e {
                return Err(format!("range {}..={} outside the file ({} lines)", s, e, lines.len()));
            }
            lines.splice(s..=e, std::iter::once(exp));
        }
    }
    Ok(lines.concat())
}

pub const C18_LINES: &[&str] = &["x()\n", "x() x()\n", "x() x() x()\n", "  x()\n", "\n", "do\n", "end\n", "x()", "x()\r\n"];

pub fn c18_files(thorough: bool) -> Vec<String> {
    let mut v = vec![];
    fn rec(alpha: &[&str], n: usize, cur: &mut String, out: &mut Vec<String>) {
        out.push(cur.clone());
        if n == 0 {
            return;
        }
        for a in alpha {
            // a line without terminator can only be the last one
            if cur.ends_with("x()") && !cur.is_empty() && !cur.ends_with('\n') {
                continue;
            }
            let l = cur.len();
            cur.push_str(a);
            rec(alpha, n - 1, cur, out);
            cur.truncate(l);
        }
    }
    if thorough {
        rec(C18_LINES, 5, &mut String::new(), &mut v);
    } else {
        rec(C18_LINES, 3, &mut String::new(), &mut v);
        rec(&C18_LINES[..4], 4, &mut String::new(), &mut v);
    }
    v.sort();
    v.dedup();
    v
}

/// C18 addendum: several files in one invocation — every differing file gets its own diff / record / summary line, also when
/// two different files have spellings that look alike (`a.lua` and `vendor/../a.lua` with `vendor` a link to another directory)
fn c18_multi(stats: &mut Stats) -> Vec<Failure> {
    let mut scs = vec![];
    let unf1 = "local   x  =  1\n";
    let unf2 = "local   y  =  2\nlocal z   = 3\n";
    let fmt1 = "local x = 1\n";
    for (first, second) in [(unf1, unf2), (fmt1, unf2), (unf1, fmt1), (fmt1, fmt1)] {
        for args in [
            vec!["a.lua", "vendor/../a.lua"],
            vec!["vendor/../a.lua", "a.lua"],
            vec!["a.lua", "../shared/a.lua"],
            vec![".", "vendor/../a.lua"],
            // a glob list that only excludes: everything else is still checked
            vec!["--glob", "!vendor/**", "--", "."],
            // the traversal of `src` meets a symbolic link to the second file
            vec!["a.lua", "src"],
            // a file without the .lua extension named explicitly AFTER the directory that contains it
            vec![".", "tool"],
            // files named explicitly are checked whatever the glob list says (no --respect-ignores)
            vec!["--glob", "!**/a.lua", "--", "a.lua", "../shared/a.lua"],
        ] {
            for fmt in ["Unified", "Json", "Summary", "Standard"] {
                let mut t = Tree::default();
                t.add("proj/a.lua", first.as_bytes());
                t.add("shared/a.lua", second.as_bytes());
                t.add("shared/lua/", b"");
                t.link("proj/vendor", "../shared/lua");
                t.link("proj/src/util.lua", "../../shared/a.lua");
                t.add("proj/tool", second.as_bytes());
                let mut argv: Vec<String> = vec!["--check".into(), "--color".into(), "Never".into(), "--output-format".into(), fmt.into()];
                argv.extend(args.iter().map(|x| x.to_string()));
                scs.push(Scenario {
                    desc: format!("C18 multi first={:?} second={:?} args={:?} format={}", first, second, args, fmt),
                    tree: t,
                    run: Run { argv, cwd: "proj".into(), ..Run::default() },
                });
            }
        }
    }
    run_all(scs, "E2-C18", stats, |s, o| {
        let mut f = vec![];
        let first_differs = s.desc.contains("first=\"local   x");
        let second_differs = s.desc.contains("second=\"local   y");
        // (below `.` the second file is reached as well: through the link src/util.lua)
        // (`tool` has the second file's text)
        // (a glob list that only excludes selects every other file below `.`, `tool` included)
        let n = first_differs as usize + second_differs as usize + if s.desc.contains("\"tool\"") || s.desc.contains("!vendor/**") { second_differs as usize } else { 0 };
        let fmt = s.run.argv[4].as_str();
        let stdout = String::from_utf8_lossy(&o.stdout).to_string();
        let reported = match fmt {
            "Standard" => stdout.lines().filter(|l| l.starts_with("Diff in ")).count(),
            "Unified" => stdout.lines().filter(|l| l.starts_with("--- ")).count(),
            "Json" => stdout.lines().filter(|l| serde_json::from_str::<serde_json::Value>(l).map(|v| v.get("mismatches").is_some()).unwrap_or(false)).count(),
            _ => stdout.lines().filter(|l| l.trim_end().ends_with(".lua") || l.trim() == "tool" || l.trim_end().ends_with("/tool")).count(),
        };
        // the summary names exactly the differing files, as the arguments spell them
        if fmt == "Summary" && s.run.argv.len() == 7 && !s.run.argv[5].starts_with('-') && s.run.argv[5] != "." && s.run.argv[6] != "src" {
            let listed: std::collections::BTreeSet<String> = stdout.lines().map(|l| l.trim().to_string()).filter(|l| l.ends_with(".lua")).collect();
            let mut want = std::collections::BTreeSet::new();
            if first_differs {
                want.insert(s.run.argv.iter().skip(5).find(|a| *a == "a.lua").cloned().unwrap_or_default());
            }
            if second_differs {
                want.insert(s.run.argv.iter().skip(5).find(|a| *a != "a.lua").cloned().unwrap_or_default());
            }
            if listed != want {
                f.push(("summary-wrong".into(), format!("the summary lists {:?}, the differing files are {:?}", listed, want)));
            }
        }
        if reported != n {
            f.push(("diff-set".into(), format!("{} files are reported as differing, {} differ", reported, n)));
        }
        let want = if n > 0 { 1 } else { 0 };
        if o.code != want {
            f.push(("exit-status".into(), format!("exit {} with {} differing files", o.code, n)));
        }
        if o.before != o.after {
            f.push(("check-wrote".into(), "the tree changed in --check mode".into()));
        }
        f
    })
}

/// C18 addendum: two files of one directory whose `.editorconfig` sections differ, checked in ONE invocation: each diff
/// reconstructs the text formatted with the file's OWN configuration, and a file that is formatted under its own section is
/// not reported (whatever the other file's section says, and in either order)
fn c18_configs(stats: &mut Stats) -> Vec<Failure> {
    let mut scs = vec![];
    let ec = "root = true\n[*.lua]\nindent_style = space\n[f.lua]\nindent_size = 2\n[g.lua]\nindent_size = 6\n";
    for (fname, ftext) in [("formatted", "do\n  x()\nend\n"), ("unformatted", "do\nx( )\nend\n")] {
        for (gname, gtext) in [("formatted", "do\n      y()\nend\n"), ("unformatted", "do\ny()\ny()\nend\n")] {
            for args in [vec!["f.lua", "g.lua"], vec!["g.lua", "f.lua"], vec!["."]] {
                for fmt in ["Unified", "Json", "Summary", "Standard"] {
                    let mut t = Tree::default();
                    t.add(".editorconfig", ec.as_bytes());
                    t.add("f.lua", ftext.as_bytes());
                    t.add("g.lua", gtext.as_bytes());
                    let mut argv: Vec<String> = vec!["--check".into(), "--color".into(), "Never".into(), "--output-format".into(), fmt.into(), "--num-threads".into(), "1".into()];
                    argv.extend(args.iter().map(|x| x.to_string()));
                    scs.push(Scenario { desc: format!("C18 two-sections f.lua={} g.lua={} args={:?} format={}", fname, gname, args, fmt), tree: t, run: Run { argv, ..Run::default() } });
                }
            }
        }
    }
    run_all(scs, "E2-C18", stats, |s, o| {
        let mut f = vec![];
        let fmt = s.run.argv[4].as_str();
        let stdout = String::from_utf8_lossy(&o.stdout).to_string();
        // (file, original, expected under its own section)
        let mut files: Vec<(&str, String, String)> = vec![];
        for (name, iw) in [("f.lua", 2usize), ("g.lua", 6)] {
            let orig = String::from_utf8_lossy(&s.tree.files.iter().find(|(p, _)| p == name).unwrap().1).to_string();
            let cfg = Cfg { it: 1, iw, ..Cfg::default() };
            let Some(exp) = lib_format(&orig, &cfg, 120) else {
                f.push(("machinery".into(), "the probe does not parse".into()));
                return f;
            };
            files.push((name, orig, exp));
        }
        let differing: Vec<&(&str, String, String)> = files.iter().filter(|x| x.1 != x.2).collect();
        let want = if differing.is_empty() { 0 } else { 1 };
        if o.code != want {
            f.push(("exit-status".into(), format!("exit {} with {} differing files", o.code, differing.len())));
        }
        match fmt {
            "Json" => {
                let mut seen = 0;
                for l in stdout.lines().filter(|l| !l.trim().is_empty()) {
                    let Ok(v) = serde_json::from_str::<serde_json::Value>(l) else { continue };
                    let Some(name) = v.get("file").and_then(|x| x.as_str()) else { continue };
                    seen += 1;
                    match files.iter().find(|x| name.ends_with(x.0)) {
                        Some(x) => match apply_json(&x.1, l) {
                            Ok(r) if r == x.2 => {}
                            Ok(r) => f.push(("json-does-not-reconstruct".into(), format!("the record of {} gives {:?}, the file formatted with its own configuration is {:?}", x.0, r, x.2))),
                            Err(e) => f.push(("json-malformed".into(), e)),
                        },
                        None => f.push(("json-unknown-file".into(), name.to_string())),
                    }
                }
                if seen != differing.len() {
                    f.push(("diff-set".into(), format!("{} files are reported as differing, {} differ", seen, differing.len())));
                }
            }
            "Unified" => {
                let mut blocks: Vec<String> = vec![];
                for l in split_keep(&stdout) {
                    if l.starts_with("--- ") || blocks.is_empty() {
                        blocks.push(String::new());
                    }
                    blocks.last_mut().unwrap().push_str(l);
                }
                if blocks.len() != differing.len() {
                    f.push(("diff-set".into(), format!("{} files are reported as differing, {} differ", blocks.len(), differing.len())));
                }
                let mut open: Vec<&(&str, String, String)> = differing.clone();
                for b in &blocks {
                    match open.iter().position(|x| apply_unified(&x.1, b).map(|r| r == x.2).unwrap_or(false)) {
                        Some(k) => {
                            open.remove(k);
                        }
                        None => f.push(("unified-does-not-reconstruct".into(), format!("a diff reconstructs no differing file formatted with its own configuration: {:?}", b))),
                    }
                }
            }
            _ => {
                let n = if fmt == "Standard" { stdout.lines().filter(|l| l.starts_with("Diff in ")).count() } else { stdout.lines().filter(|l| l.trim_end().ends_with(".lua")).count() };
                if n != differing.len() {
                    f.push(("diff-set".into(), format!("{} files are reported as differing, {} differ", n, differing.len())));
                }
            }
        }
        if o.before != o.after {
            f.push(("check-wrote".into(), "the tree changed in --check mode".into()));
        }
        f
    })
}

pub fn c18(thorough: bool, stats: &mut Stats) -> Vec<Failure> {
    let mut multi = c18_multi(stats);
    multi.extend(c18_configs(stats));
    let mut all = c18_single(thorough, stats);
    all.append(&mut multi);
    all
}

fn c18_single(thorough: bool, stats: &mut Stats) -> Vec<Failure> {
    let mut scs = vec![];
    let cfg = Cfg::default();
    for f in c18_files(thorough) {
        // only pairs that arise from programs
        let Some(_) = lib_format(&f, &cfg, 120) else { continue };
        for fmt in ["Unified", "Json", "Summary", "Standard"] {
            let mut t = Tree::default();
            t.add("f.lua", f.as_bytes());
            scs.push(Scenario {
                desc: format!("C18 file={:?} format={}", f, fmt),
                tree: t.clone(),
                run: Run { argv: vec!["--check".into(), "--color".into(), "Never".into(), "--output-format".into(), fmt.into(), "f.lua".into()], ..Run::default() },
            });
            // the same text through stdin (the diff is produced by another caller of the same functions); the name listed
            // by the summary format is then `stdin`
            scs.push(Scenario {
                desc: format!("C18 file={:?} format={} via=stdin", f, fmt),
                tree: t,
                run: Run { argv: vec!["--check".into(), "--color".into(), "Never".into(), "--output-format".into(), fmt.into(), "-".into()], stdin: Some(f.as_bytes().to_vec()), ..Run::default() },
            });
        }
    }
    run_all(scs, "E2-C18", stats, |s, o| {
        let mut f = vec![];
        let orig = String::from_utf8_lossy(&s.tree.files[0].1).to_string();
        let expected = lib_format(&orig, &Cfg::default(), 120).unwrap();
        let fmt = s.run.argv[4].as_str();
        let differs = orig != expected;
        let stdout = String::from_utf8_lossy(&o.stdout).to_string();
        let want_code = if differs { 1 } else { 0 };
        if o.code != want_code {
            f.push(("exit-status".into(), format!("exit {} but the file {} its formatted form", o.code, if differs { "differs from" } else { "equals" })));
        }
        match fmt {
            "Unified" => {
                if !differs {
                    if !stdout.is_empty() {
                        f.push(("diff-for-formatted-file".into(), "a diff is printed for an already formatted file".into()));
                    }
                } else if stdout.is_empty() {
                    f.push(("no-diff".into(), "no diff is printed although the file is not formatted".into()));
                } else {
                    match apply_unified(&orig, &stdout) {
                        Ok(r) if r == expected => {}
                        Ok(r) => f.push(("unified-does-not-reconstruct".into(), format!("applying the unified diff gives {:?}, formatted text is {:?}", r, expected))),
                        Err(e) => f.push(("unified-malformed".into(), e)),
                    }
                }
            }
            "Json" => {
                if !differs {
                    if !stdout.trim().is_empty() {
                        f.push(("diff-for-formatted-file".into(), "mismatches are printed for an already formatted file".into()));
                    }
                } else if stdout.trim().is_empty() {
                    f.push(("no-diff".into(), "no mismatch is printed although the file is not formatted".into()));
                } else {
                    match apply_json(&orig, stdout.trim()) {
                        Ok(r) if r == expected => {}
                        Ok(r) => f.push(("json-does-not-reconstruct".into(), format!("applying the JSON mismatches gives {:?}, formatted text is {:?}", r, expected))),
                        Err(e) => f.push(("json-malformed".into(), e)),
                    }
                }
            }
            "Summary" => {
                let listed = stdout.lines().any(|l| l.trim() == if s.desc.ends_with("via=stdin") { "stdin" } else { "f.lua" });
                if listed != differs {
                    f.push(("summary-wrong".into(), format!("summary lists the file: {}, file differs: {}", listed, differs)));
                }
            }
            _ => {
                if differs == stdout.is_empty() {
                    f.push(("standard-diff-presence".into(), format!("standard diff printed: {}, file differs: {}", !stdout.is_empty(), differs)));
                }
            }
        }
        if o.before != o.after {
            f.push(("check-wrote".into(), "the tree changed in --check mode".into()));
        }
        f
    })
}

// ==================================================================================================== C13 / C14
#[derive(Clone, Copy, Debug, PartialEq, Eq, PartialOrd, Ord)]
pub enum Kind {
    Formatted,
    Unformatted,
    Unparseable,
    InvalidUtf8,
    Missing,
    VerifyFail,
    Crash,
    Immutable,
    /// an existing regular file named with a trailing slash (the walker reports an error other than "not found")
    NotDir,
    /// does not parse, and the error sits on a `;` (a field access used as a statement)
    Unparseable2,
    /// formatted except for its line terminators (CRLF under the default Unix setting)
    Crlf,
    /// formatted except that the final line terminator is missing
    NoEol,
    /// white space only: a healthy file whose formatted text is empty
    Blank,
    /// needs formatting, and its formatted text has exactly the same length (only the quotes change)
    SameLen,
    /// mode 0444 and already formatted: nothing has to be written, so nothing fails
    ReadOnlyFormatted,
    /// mode 0444, run as an unprivileged user
    ReadOnly,
    /// mode 0000, run as an unprivileged user
    Unreadable,
    /// already formatted, behind a UTF-8 byte order mark: the parser rejects the mark, so the file fails and stays as it is
    Bom,
}
impl Kind {
    pub fn letter(self) -> char {
        match self {
            Kind::Formatted => 'F',
            Kind::Unformatted => 'U',
            Kind::Unparseable => 'P',
            Kind::InvalidUtf8 => 'I',
            Kind::Missing => 'M',
            Kind::VerifyFail => 'V',
            Kind::Crash => 'C',
            Kind::Immutable => 'W',
            Kind::NotDir => 'D',
            Kind::Unparseable2 => 'Q',
            Kind::Crlf => 'L',
            Kind::NoEol => 'N',
            Kind::Blank => 'B',
            Kind::SameLen => 'S',
            Kind::ReadOnlyFormatted => 'Z',
            Kind::ReadOnly => 'R',
            Kind::Unreadable => 'X',
            Kind::Bom => 'O',
        }
    }
    pub fn bytes(self, i: usize) -> Vec<u8> {
        match self {
            Kind::Formatted | Kind::NotDir | Kind::ReadOnlyFormatted => format!("local x{} = 1\n", i).into_bytes(),
            Kind::Blank => b"\n  \n\n".to_vec(),
            Kind::SameLen => format!("local g{} = 'hi'\n", i).into_bytes(),
            Kind::Unformatted | Kind::Immutable | Kind::ReadOnly | Kind::Unreadable => format!("local   x{}  =  2\n", i).into_bytes(),
            Kind::Unparseable => format!("local x{} = = 1\n", i).into_bytes(),
            Kind::Unparseable2 => format!("local M{} = {{}}\nM{}.count   =   0\nM{}.reset;\nreturn M{}\n", i, i, i, i).into_bytes(),
            Kind::Crlf => format!("local x{} = 1\r\nlocal y = 2\r\n", i).into_bytes(),
            Kind::NoEol => format!("local x{} = 1", i).into_bytes(),
            Kind::InvalidUtf8 => {
                let mut b = format!("local  s{} = \"", i).into_bytes();
                b.push(0xff);
                b.extend_from_slice(b"\"\n");
                b
            }
            Kind::Missing => vec![],
            Kind::Bom => format!("{}local x{} = 1\n", '\u{feff}', i).into_bytes(),
            Kind::VerifyFail => format!("--!verif:verify-fail\nlocal   v{}  =  3\n", i).into_bytes(),
            Kind::Crash => format!("--!verif:panic\nlocal   c{}  =  4\n", i).into_bytes(),
        }
    }
    pub fn fails(self) -> bool {
        !matches!(self, Kind::Formatted | Kind::Unformatted | Kind::Crlf | Kind::NoEol | Kind::SameLen | Kind::ReadOnlyFormatted | Kind::Blank)
    }
}

fn multisets(alpha: &[Kind], n: usize, ordered: bool) -> Vec<Vec<Kind>> {
    let mut out = vec![];
    fn rec(alpha: &[Kind], n: usize, start: usize, ordered: bool, cur: &mut Vec<Kind>, out: &mut Vec<Vec<Kind>>) {
        if !cur.is_empty() {
            out.push(cur.clone());
        }
        if cur.len() == n {
            return;
        }
        for i in (if ordered { 0 } else { start })..alpha.len() {
            cur.push(alpha[i]);
            rec(alpha, n, i, ordered, cur, out);
            cur.pop();
        }
    }
    rec(alpha, n, 0, ordered, &mut vec![], &mut out);
    out
}

/// file names: a0.lua, sub/a1.lua ... depending on the layout
fn layout_paths(kinds: &[Kind], layout: &str) -> Vec<String> {
    kinds
        .iter()
        .enumerate()
        .map(|(i, _)| match layout {
            "flat" | "dir" | "linkdir" => format!("a{}.lua", i),
            "subdir+overlap" => {
                if i % 2 == 0 {
                    format!("a{}.lua", i)
                } else {
                    format!("sub/a{}.lua", i)
                }
            }
            // the last file has a name the traversal does not select and is named explicitly after the directory
            "dir+txt" => {
                if i + 1 == kinds.len() {
                    "e.txt".to_string()
                } else {
                    format!("a{}.lua", i)
                }
            }
            _ => {
                if i % 2 == 0 {
                    format!("a{}.lua", i)
                } else {
                    format!("sub/a{}.lua", i)
                }
            }
        })
        .collect()
}

pub fn c13(thorough: bool, stats: &mut Stats) -> Vec<Failure> {
    let alpha = [Kind::Formatted, Kind::Unformatted, Kind::Unparseable, Kind::InvalidUtf8, Kind::Missing, Kind::Crlf, Kind::NoEol, Kind::NotDir, Kind::Blank];
    let mut scs = vec![];
    for ks in multisets(&alpha, if thorough { 4 } else { 3 }, false) {
        for layout in ["flat", "dir", "subdir", "dir+txt", "linkdir", "subdir+overlap"] {
            if layout != "flat" && (ks.contains(&Kind::Missing) || ks.contains(&Kind::NotDir)) {
                continue;
            }
            if layout == "subdir+overlap" && ks.len() < 2 {
                continue; // (no sub-directory without a second file)
            }
            for fmt in ["Standard", "Unified", "Json", "Summary"] {
                for verify in [false, true] {
                    for nt in [1usize, 4] {
                        if !thorough && verify && nt == 4 {
                            continue;
                        }
                        // every rotation of the argument order (explicit layout only)
                        let rots = if layout == "flat" { ks.len() } else { 1 };
                        for rot in 0..rots {
                            let paths = layout_paths(&ks, layout);
                            let mut t = Tree::default();
                            for (i, k) in ks.iter().enumerate() {
                                if *k != Kind::Missing {
                                    if layout == "linkdir" {
                                        // the files live in store/, the traversed directory d/ holds symbolic links to them
                                        t.add(&format!("store/{}", paths[i]), &k.bytes(i));
                                        t.link(&format!("d/{}", paths[i]), &format!("../store/{}", paths[i]));
                                    } else {
                                        t.add(&paths[i], &k.bytes(i));
                                    }
                                }
                            }
                            let mut argv: Vec<String> = vec!["--check".into(), "--color".into(), "Never".into(), "--output-format".into(), fmt.into(), "--num-threads".into(), nt.to_string()];
                            if verify {
                                argv.push("--verify".into());
                            }
                            if layout == "flat" {
                                let mut ps: Vec<String> = paths.iter().zip(ks.iter()).map(|(p, k)| if *k == Kind::NotDir { format!("{}/", p) } else { p.clone() }).collect();
                                ps.rotate_left(rot);
                                argv.extend(ps);
                            } else {
                                argv.push(if layout == "linkdir" { "d" } else { "." }.into());
                                if layout == "dir+txt" {
                                    argv.push("e.txt".into());
                                }
                                // a directory and one of its own sub-directories: every file still counts once
                                if layout == "subdir+overlap" {
                                    argv.push("sub".into());
                                }
                            }
                            let desc = format!(
                                "C13 kinds={} layout={} rot={} format={} verify={} threads={}",
                                ks.iter().map(|k| k.letter()).collect::<String>(),
                                layout,
                                rot,
                                fmt,
                                verify,
                                nt
                            );
                            scs.push(Scenario { desc, tree: t, run: Run { argv, ..Run::default() } });
                        }
                    }
                }
            }
        }
    }
    // further options and environments on small file sets: --verify with a file the verifier rejects (fault hook), a range given
    // by ONE bound only (the differing statement lies outside of it), and the log level variable (the status must not depend on
    // what is logged)
    let opts: Vec<(&str, Vec<&str>, Vec<(&str, &str)>)> = vec![
        ("verify-reject", vec!["--verify"], vec![("STYLUA_VERIF_FAULTS", "1")]),
        ("crash", vec![], vec![("STYLUA_VERIF_FAULTS", "1")]),
        ("range-start-only", vec!["--range-start", "1000"], vec![]),
        ("range-end-only", vec!["--range-end", "0"], vec![]),
        ("range-start-0", vec!["--range-start", "0"], vec![]),
        // the files live below a hidden directory: found only, and exactly, with --allow-hidden
        ("hidden-dir", vec![], vec![]),
        ("hidden-dir+allow-hidden", vec!["--allow-hidden"], vec![]),
        ("log=off", vec![], vec![("STYLUA_LOG", "off")]),
        ("log=error", vec![], vec![("STYLUA_LOG", "error")]),
        ("log=debug", vec![], vec![("STYLUA_LOG", "debug")]),
        ("log=stylua=off", vec![], vec![("STYLUA_LOG", "stylua=off")]),
    ];
    for ks in multisets(&[Kind::Formatted, Kind::Unformatted, Kind::Unparseable, Kind::VerifyFail, Kind::Missing, Kind::Crash], 2, false) {
        for (oname, oargs, oenv) in &opts {
            if ks.contains(&Kind::VerifyFail) != (*oname == "verify-reject") {
                continue;
            }
            if ks.contains(&Kind::Crash) != (*oname == "crash") {
                continue;
            }
            for fmt in ["Standard", "Unified", "Json", "Summary"] {
                for layout in ["flat", "dir"] {
                    if layout != "flat" && ks.contains(&Kind::Missing) {
                        continue;
                    }
                    let hidden = oname.starts_with("hidden-dir");
                    if hidden && layout == "flat" {
                        continue;
                    }
                    let paths: Vec<String> = layout_paths(&ks, layout).into_iter().map(|p| if hidden { format!(".cfg/nvim/{}", p) } else { p }).collect();
                    let mut t = Tree::default();
                    for (i, k) in ks.iter().enumerate() {
                        if *k != Kind::Missing {
                            t.add(&paths[i], &k.bytes(i));
                        }
                    }
                    let mut argv: Vec<String> = vec!["--check".into(), "--color".into(), "Never".into(), "--output-format".into(), fmt.into()];
                    argv.extend(oargs.iter().map(|x| x.to_string()));
                    if layout == "flat" {
                        argv.extend(paths.clone());
                    } else {
                        argv.push(".".into());
                    }
                    let desc = format!("C13 kinds={} layout={} rot=0 format={} verify={} threads=default opt={}", ks.iter().map(|k| k.letter()).collect::<String>(), layout, fmt, *oname == "verify-reject", oname);
                    scs.push(Scenario { desc, tree: t, run: Run { argv, env: oenv.iter().map(|(a, b)| (a.to_string(), b.to_string())).collect(), ..Run::default() } });
                }
            }
        }
    }
    // --respect-ignores with files named explicitly in two directories whose ignore files differ (gen/.styluaignore excludes
    // every Lua file of gen/, src/.styluaignore only skip*.lua): the ignored file counts for nothing, in either argument order
    for k0 in [Kind::Formatted, Kind::Unformatted, Kind::Unparseable] {
        for k1 in [Kind::Unformatted, Kind::Unparseable] {
            for fmt in ["Standard", "Unified", "Json", "Summary"] {
                for order in [0, 1] {
                    for with_src_ignore in [false, true] {
                        let mut t = Tree::default();
                        t.add("src/a0.lua", &k0.bytes(0));
                        t.add("gen/a1.lua", &k1.bytes(1));
                        t.add("gen/.styluaignore", b"*.lua\n");
                        if with_src_ignore {
                            t.add("src/.styluaignore", b"skip*.lua\n");
                        }
                        let mut argv: Vec<String> = vec!["--check".into(), "--color".into(), "Never".into(), "--output-format".into(), fmt.into(), "--respect-ignores".into()];
                        let mut ps = vec!["src/a0.lua".to_string(), "gen/a1.lua".to_string()];
                        ps.rotate_left(order);
                        argv.extend(ps);
                        // (the kinds in the description are those of the files that count: the judge reads them from there)
                        let desc = format!("C13 kinds={} layout=two-ignore-files rot={} format={} verify=false threads=default opt=respect-ignores(gen/a1.lua={},src-ignore-file={})", k0.letter(), order, fmt, k1.letter(), with_src_ignore);
                        scs.push(Scenario { desc, tree: t, run: Run { argv, ..Run::default() } });
                    }
                }
            }
        }
    }
    // the text comes from stdin (`-` is a file argument like any other as far as the status and the diff are concerned)
    for k in [Kind::Formatted, Kind::Unformatted, Kind::Unparseable, Kind::Crlf, Kind::NoEol] {
        for fmt in ["Standard", "Unified", "Json", "Summary"] {
            for extra in [vec![], vec!["--stdin-filepath", "src/x.lua"]] {
                let mut t = Tree::default();
                t.add("keep.lua", b"local x = 1\n");
                let mut argv: Vec<String> = vec!["--check".into(), "--color".into(), "Never".into(), "--output-format".into(), fmt.into()];
                argv.extend(extra.iter().map(|x| x.to_string()));
                argv.push("-".into());
                let desc = format!("C13 kinds={} layout=stdin rot=0 format={} verify=false threads=default opt=stdin{}", k.letter(), fmt, if extra.is_empty() { "" } else { "@src/x.lua" });
                scs.push(Scenario { desc, tree: t, run: Run { argv, stdin: Some(k.bytes(0)), ..Run::default() } });
            }
        }
    }
    // histories: `stylua <files>` (write mode), then --check on the tree the program itself produced: everything that could be
    // formatted is now formatted, so only the failing kinds still count
    for ks in multisets(&[Kind::Unformatted, Kind::Formatted, Kind::Crlf, Kind::NoEol, Kind::Unparseable], if thorough { 3 } else { 2 }, false) {
        for fmt in ["Standard", "Unified", "Json", "Summary"] {
            let paths = layout_paths(&ks, "flat");
            let mut t = Tree::default();
            for (i, k) in ks.iter().enumerate() {
                t.add(&paths[i], &k.bytes(i));
            }
            let mut argv: Vec<String> = vec!["--check".into(), "--color".into(), "Never".into(), "--output-format".into(), fmt.into()];
            argv.extend(paths.clone());
            let desc = format!("C13 kinds={} layout=flat rot=0 format={} verify=false threads=default history=write-then-check", ks.iter().map(|k| k.letter()).collect::<String>(), fmt);
            scs.push(Scenario { desc, tree: t, run: Run { argv, pre: vec![paths.clone()], ..Run::default() } });
        }
    }
    run_all(scs, "E2-C13", stats, |s, o| {
        let mut f = vec![];
        // recover the scenario from the description
        let kinds: Vec<char> = s.desc.split("kinds=").nth(1).unwrap().split(' ').next().unwrap().chars().collect();
        let fmt = s.desc.split("format=").nth(1).unwrap().split(' ').next().unwrap();
        if o.before != o.after {
            let changed: Vec<&String> = o.after.keys().filter(|k| o.before.get(*k) != o.after.get(*k)).chain(o.before.keys().filter(|k| !o.after.contains_key(*k))).collect();
            f.push(("check-wrote".into(), format!("--check modified / created / touched {:?}", changed)));
        }
        let any_fail = kinds.iter().any(|k| matches!(k, 'P' | 'I' | 'M' | 'D' | 'V' | 'C'));
        let after_write = s.desc.ends_with("history=write-then-check");
        let opt = s.desc.split("opt=").nth(1).unwrap_or("");
        // without --allow-hidden nothing below the hidden directory is selected
        let any_fail = any_fail && opt != "hidden-dir";
        let n_unf = if after_write || opt == "hidden-dir" {
            0
        } else if opt.starts_with("range-") {
            // what differs under a range comes from the library, called with the same one-sided range
            let range = match opt {
                "range-start-only" => (Some(1000usize), None),
                "range-end-only" => (None, Some(0usize)),
                _ => (Some(0usize), None),
            };
            s.tree
                .files
                .iter()
                .filter(|(_, b)| {
                    let text = String::from_utf8_lossy(b).to_string();
                    matches!(crate::explore::run_format(&text, &Cfg::default(), 120, Some(range)).0, crate::explore::Out::Ok(x) if x != text)
                })
                .count()
        } else {
            kinds.iter().filter(|k| matches!(**k, 'U' | 'L' | 'N' | 'B')).count()
        };
        let want = if any_fail { 2 } else if n_unf > 0 { 1 } else { 0 };
        if o.code != want {
            f.push(("exit-status".into(), format!("exit status {} but expected {} ({} failing, {} differing)", o.code, want, kinds.iter().filter(|k| matches!(k, 'P' | 'I' | 'M' | 'D' | 'V' | 'C')).count(), n_unf)));
        }
        let stdout = String::from_utf8_lossy(&o.stdout).to_string();
        let reported: usize = match fmt {
            "Standard" => stdout.lines().filter(|l| l.starts_with("Diff in ")).count(),
            "Unified" => stdout.lines().filter(|l| *l == "--- old").count(),
            "Json" => {
                let mut n = 0;
                for l in stdout.lines().filter(|l| !l.trim().is_empty()) {
                    match serde_json::from_str::<serde_json::Value>(l) {
                        Ok(v) if v.get("mismatches").is_some() => n += 1,
                        Ok(_) => {}
                        Err(e) => f.push(("json-invalid".into(), format!("stdout line is not JSON: {} ({:?})", e, l.chars().take(60).collect::<String>()))),
                    }
                }
                n
            }
            _ => stdout.lines().filter(|l| l.trim_end().ends_with(".lua") || l.trim_end().ends_with("e.txt") || l.trim() == "stdin").count(),
        };
        if reported != n_unf {
            f.push(("diff-set".into(), format!("{} files are reported as differing, {} differ", reported, n_unf)));
        }
        f
    })
}

pub const NOBODY: u32 = 65534;

/// can the binary be started as an unprivileged user, and do permission bits bind it? (needs root, and every ancestor
/// of the scratch directory and of the binary must be traversable by others)
pub fn unprivileged_supported() -> bool {
    // (the probe must not depend on how the subject treats a read-only file: a shell does the write attempt)
    let root = scratch_root().join("probe-unprivileged");
    let _ = std::fs::create_dir_all(&root);
    let f = root.join("f.lua");
    let _ = std::fs::write(&f, b"local   x = 1\n");
    let _ = std::os::unix::fs::chown(&root, Some(NOBODY), Some(NOBODY));
    let _ = std::os::unix::fs::chown(&f, Some(NOBODY), Some(NOBODY));
    let _ = std::fs::set_permissions(&f, std::fs::Permissions::from_mode(0o444));
    use std::os::unix::process::CommandExt;
    let runs = Command::new(BIN).arg("--version").current_dir(&root).uid(NOBODY).gid(NOBODY).stdout(Stdio::null()).stderr(Stdio::null()).status().map(|s| s.success()).unwrap_or(false);
    let blocked = Command::new("/bin/sh").arg("-c").arg(": >> f.lua").current_dir(&root).uid(NOBODY).gid(NOBODY).stdout(Stdio::null()).stderr(Stdio::null()).status().map(|s| !s.success()).unwrap_or(false);
    let can_create = Command::new("/bin/sh").arg("-c").arg(": > g.tmp").current_dir(&root).uid(NOBODY).gid(NOBODY).stdout(Stdio::null()).stderr(Stdio::null()).status().map(|s| s.success()).unwrap_or(false);
    let _ = std::fs::remove_dir_all(&root);
    runs && blocked && can_create
}

pub fn c14(thorough: bool, stats: &mut Stats) -> Vec<Failure> {
    let mut alpha = vec![Kind::Unformatted, Kind::Formatted, Kind::Unparseable, Kind::VerifyFail, Kind::Crash, Kind::InvalidUtf8, Kind::Immutable, Kind::Unparseable2, Kind::SameLen, Kind::ReadOnlyFormatted, Kind::Blank, Kind::Bom];
    if !immutable_supported() {
        // without a working immutable attribute the "unwritable" kind cannot be produced: leave it out and say so
        alpha.retain(|k| *k != Kind::Immutable);
        stats.machinery.insert("C14: `chattr +i` has no effect here, the unwritable-file kind is left out".into(), 1);
    }
    let mut scs = vec![];
    // (alphabet, run as an unprivileged user?) — permission bits mean nothing to root, so the read-only / unreadable kinds
    // are run as `nobody` on a tree handed over to it; a missing path can only be named explicitly
    let mut alpha_m = alpha.clone();
    alpha_m.push(Kind::Missing);
    alpha_m.push(Kind::NotDir);
    let alpha_u = vec![Kind::Unformatted, Kind::Formatted, Kind::ReadOnly, Kind::Unreadable, Kind::Unparseable, Kind::ReadOnlyFormatted];
    let mut spaces: Vec<(Vec<Vec<Kind>>, Option<u32>)> = vec![(multisets(&alpha_m, if thorough { 4 } else { 3 }, true), None)];
    if unprivileged_supported() {
        spaces.push((multisets(&alpha_u, 3, true).into_iter().filter(|ks| ks.iter().any(|k| matches!(k, Kind::ReadOnly | Kind::Unreadable | Kind::ReadOnlyFormatted))).collect(), Some(NOBODY)));
    } else {
        stats.machinery.insert("C14: cannot run the binary as an unprivileged user here, the read-only / unreadable kinds are left out".into(), 1);
    }
    for (sets, uid) in spaces {
        for ks in sets {
            for layout in ["flat", "dir", "subdir"] {
                if layout != "flat" && (ks.contains(&Kind::Missing) || ks.contains(&Kind::NotDir)) {
                    continue;
                }
                for verify in [false, true] {
                    if ks.contains(&Kind::VerifyFail) && !verify {
                        continue; // without --verify nothing rejects the (deliberately wrong) output of the fault hook
                    }
                    for nt in [1usize, 4] {
                        if !thorough && nt == 4 && (layout == "subdir" || ks.len() < 2) {
                            continue;
                        }
                        for fmt in ["Standard", "Json"] {
                            // (write mode accepts the standard and the JSON output format)
                            if fmt == "Json" && !thorough && (ks.len() > 2 || nt == 4 || layout == "subdir") {
                                continue;
                            }
                            if uid.is_some() && (verify || nt == 4) {
                                continue;
                            }
                            for sortcfg in [false, true] {
                            // (verification must still happen when the configuration enables sort_requires)
                            if sortcfg && !(verify && ks.len() <= 2 && fmt == "Standard" && nt == 1 && uid.is_none()) {
                                continue;
                            }
                            let paths = layout_paths(&ks, layout);
                            let mut t = Tree::default();
                            if sortcfg {
                                t.add("stylua.toml", b"[sort_requires]\nenabled = true\n");
                            }
                            let mut post = vec![];
                            for (i, k) in ks.iter().enumerate() {
                                if *k == Kind::Missing {
                                    continue;
                                }
                                t.add(&paths[i], &k.bytes(i));
                                match k {
                                    Kind::Immutable => post.push((paths[i].clone(), "immutable".to_string())),
                                    Kind::ReadOnly | Kind::ReadOnlyFormatted => post.push((paths[i].clone(), "mode444".to_string())),
                                    Kind::Unreadable => post.push((paths[i].clone(), "mode000".to_string())),
                                    _ => {}
                                }
                            }
                            let mut argv: Vec<String> = vec!["--color".into(), "Never".into(), "--num-threads".into(), nt.to_string()];
                            if verify {
                                argv.push("--verify".into());
                            }
                            if fmt != "Standard" {
                                argv.extend(["--output-format".into(), fmt.into()]);
                            }
                            if layout == "flat" {
                                argv.extend(paths.iter().zip(ks.iter()).map(|(p, k)| if *k == Kind::NotDir { format!("{}/", p) } else { p.clone() }));
                            } else {
                                argv.push(".".into());
                            }
                            let desc = format!(
                                "C14 kinds={} layout={} verify={} threads={} format={} user={}{}",
                                ks.iter().map(|k| k.letter()).collect::<String>(),
                                layout,
                                verify,
                                nt,
                                fmt,
                                if uid.is_some() { "nobody" } else { "self" },
                                if sortcfg { " config=sort_requires" } else { "" }
                            );
                            scs.push(Scenario { desc, tree: t, run: Run { argv, env: vec![("STYLUA_VERIF_FAULTS".into(), "1".into())], post, uid, ..Run::default() } });
                            }
                        }
                    }
                }
            }
        }
    }
    // histories: the same write-mode invocation twice; the second run finds every healthy file formatted and must not rewrite it
    for ks in multisets(&[Kind::Unformatted, Kind::Formatted, Kind::Unparseable], if thorough { 3 } else { 2 }, true) {
        for layout in ["flat", "dir"] {
            let paths = layout_paths(&ks, layout);
            let mut t = Tree::default();
            for (i, k) in ks.iter().enumerate() {
                t.add(&paths[i], &k.bytes(i));
            }
            let mut argv: Vec<String> = vec!["--color".into(), "Never".into()];
            if layout == "flat" {
                argv.extend(paths.clone());
            } else {
                argv.push(".".into());
            }
            let desc = format!("C14 kinds={} layout={} verify=false threads=default format=Standard user=self history=write-twice", ks.iter().map(|k| k.letter()).collect::<String>(), layout);
            scs.push(Scenario { desc, tree: t, run: Run { argv: argv.clone(), pre: vec![argv], ..Run::default() } });
        }
    }
    run_all(scs, "E2-C14", stats, |s, o| {
        let mut f = vec![];
        let kinds: Vec<char> = s.desc.split("kinds=").nth(1).unwrap().split(' ').next().unwrap().chars().collect();
        if s.desc.ends_with("history=write-twice") {
            // the observed run is the SECOND one: nothing may change any more, and the status still reports the failing files
            let want = if kinds.iter().any(|k| !matches!(k, 'U' | 'F')) { 2 } else { 0 };
            if o.code != want {
                f.push(("exit-status".into(), format!("second run: exit status {} but expected {}", o.code, want)));
            }
            for (p, v) in &o.after {
                if o.before.get(p) != Some(v) {
                    f.push(("formatted-file-rewritten".into(), format!("second run: {} was written again (bytes / mtime / inode changed) although the first run had formatted it", p)));
                }
            }
            return f;
        }
        let any_fail = kinds.iter().any(|k| !matches!(k, 'U' | 'F' | 'S' | 'Z' | 'B'));
        let want = if any_fail { 2 } else { 0 };
        if o.code != want {
            f.push(("exit-status".into(), format!("exit status {} but expected {}", o.code, want)));
        }
        let present: Vec<char> = kinds.iter().cloned().filter(|k| *k != 'M').collect();
        for (i, (p, b)) in s.tree.files.iter().filter(|(p, _)| p.ends_with(".lua")).enumerate() {
            let k = present[i];
            let Some(after) = o.after.get(p) else {
                f.push(("file-removed".into(), format!("{} no longer exists", p)));
                continue;
            };
            let before = &o.before[p];
            if k == 'U' || k == 'S' || k == 'B' {
                let want = lib_format(&String::from_utf8_lossy(b), &Cfg::default(), 120).unwrap();
                if after.0 != want.as_bytes() {
                    f.push(("not-formatted".into(), format!("{} (a healthy unformatted file) is {:?} after the run, expected {:?}", p, String::from_utf8_lossy(&after.0), want)));
                }
            } else {
                if after.0 != *b {
                    f.push(("failing-file-modified".into(), format!("{} (kind {}) changed: {:?}", p, k, String::from_utf8_lossy(&after.0).chars().take(80).collect::<String>())));
                }
                if (k == 'F' || k == 'Z') && (after.1 != before.1 || after.2 != before.2) {
                    f.push(("formatted-file-rewritten".into(), format!("{} is already formatted but was rewritten (mtime / inode changed)", p)));
                }
                // (a failing file is not even rewritten with the same bytes: its time stamp stays)
                if k != 'F' && k != 'Z' && after.1 != before.1 {
                    f.push(("failing-file-rewritten".into(), format!("{} (kind {}) was rewritten (mtime changed)", p, k)));
                }
                if k != 'F' && k != 'Z' && (after.2 != before.2 || after.3 != before.3) {
                    f.push(("failing-file-replaced".into(), format!("{} (kind {}) has been replaced: inode {} -> {}, mode {:o} -> {:o}", p, k, before.2, after.2, before.3, after.3)));
                }
            }
        }
        for k in o.after.keys() {
            if !o.before.contains_key(k) {
                f.push(("file-created".into(), format!("{} was created", k)));
            }
        }
        f
    })
}

// ======================================================================================================== C15
/// the 14 places a configuration can sit; the value is the indent width the file at that place prescribes
pub const PLACES: &[(&str, usize)] = &[
    ("p/stylua.toml", 1),
    ("p/.stylua.toml", 2),
    ("p/w/stylua.toml", 3),
    ("p/w/.stylua.toml", 4),
    ("p/w/s/stylua.toml", 5),
    ("p/w/s/.stylua.toml", 6),
    ("p/w/s/d/stylua.toml", 7),
    ("p/w/s/d/.stylua.toml", 8),
    ("p/w/.editorconfig", 9),
    ("p/.editorconfig", 10),
    ("_xdg/stylua.toml", 11),
    ("_xdg/stylua/stylua.toml", 12),
    ("_home/.config/stylua.toml", 13),
    ("_home/.config/stylua/stylua.toml", 14),
];
const PROBE: &str = "do\nx()\nend\n";
const OVERRIDE_WIDTH: usize = 15;

fn place_content(i: usize) -> String {
    let (p, n) = PLACES[i];
    if p.ends_with(".editorconfig") {
        format!("root = true\n[*.lua]\nindent_style = space\nindent_size = {}\n", n)
    } else {
        format!("indent_type = \"Spaces\"\nindent_width = {}\n", n)
    }
}

/// reference model: acceptable indent widths (0 = the default, tabs) for a file whose directory is at `level`
/// (0 = p, 1 = p/w = cwd, 2 = p/w/s, 3 = p/w/s/d); `stdin_plain` = stdin without --stdin-filepath
fn c15_model(places: &[usize], level: usize, search_parents: bool, no_editorconfig: bool, config_path: Option<usize>, over: bool) -> Vec<usize> {
    let has = |i: usize| places.contains(&i);
    // the command line sets indent_type AND indent_width, so the override is observable whatever else was found
    let fin = |n: usize| -> usize {
        if over {
            OVERRIDE_WIDTH
        } else {
            n
        }
    };
    if let Some(cp) = config_path {
        return vec![fin(PLACES[cp].1)];
    }
    // 1. stylua.toml / .stylua.toml walking up from the file's directory, stopping at the working directory
    let mut lv = level as i32;
    loop {
        let a = (lv as usize) * 2;
        let (x, y) = (has(a), has(a + 1));
        if x || y {
            let mut v = vec![];
            if x {
                v.push(fin(PLACES[a].1));
            }
            if y {
                // both names in one directory: the documentation does not say which wins
                v.push(fin(PLACES[a + 1].1));
            }
            return v;
        }
        let stop_here = lv == 1 && !search_parents;
        if stop_here || lv == 0 {
            break;
        }
        lv -= 1;
    }
    // 2. with --search-parent-directories: XDG / HOME locations
    if search_parents {
        for i in 10..14 {
            if has(i) {
                return vec![fin(PLACES[i].1)];
            }
        }
    }
    // 3. .editorconfig (nearest one at or above the file's directory)
    if !no_editorconfig {
        if level >= 1 && has(8) {
            return vec![fin(9)];
        }
        if has(9) {
            return vec![fin(10)];
        }
    }
    vec![fin(0)]
}

fn indent_of(out: &str) -> Option<usize> {
    // "do\n<indent>x()\nend\n"
    let l = out.lines().nth(1)?;
    if l.starts_with('\t') {
        return Some(0);
    }
    Some(l.len() - l.trim_start_matches(' ').len())
}

pub fn c15(thorough: bool, stats: &mut Stats) -> Vec<Failure> {
    let n = PLACES.len();
    let mut subsets: Vec<Vec<usize>> = vec![vec![]];
    for a in 0..n {
        subsets.push(vec![a]);
        for b in (a + 1)..n {
            subsets.push(vec![a, b]);
            if thorough {
                for c in (b + 1)..n {
                    subsets.push(vec![a, b, c]);
                }
            }
        }
    }
    // targets: (description, argv tail, stdin?, list of (file path relative to root, level) whose result is observed)
    struct Target {
        name: &'static str,
        args: Vec<&'static str>,
        stdin: bool,
        files: Vec<(&'static str, usize)>,
        stdin_level: usize,
    }
    let targets = vec![
        Target { name: "f.lua", args: vec!["f.lua"], stdin: false, files: vec![("p/w/f.lua", 1)], stdin_level: 0 },
        Target { name: "./f.lua", args: vec!["./f.lua"], stdin: false, files: vec![("p/w/f.lua", 1)], stdin_level: 0 },
        Target { name: "s/f.lua", args: vec!["s/f.lua"], stdin: false, files: vec![("p/w/s/f.lua", 2)], stdin_level: 0 },
        Target { name: "s/d/f.lua", args: vec!["s/d/f.lua"], stdin: false, files: vec![("p/w/s/d/f.lua", 3)], stdin_level: 0 },
        Target { name: "s/d/../f.lua", args: vec!["s/d/../f.lua"], stdin: false, files: vec![("p/w/s/f.lua", 2)], stdin_level: 0 },
        Target { name: "abs:s/f.lua", args: vec!["$ROOT/p/w/s/f.lua"], stdin: false, files: vec![("p/w/s/f.lua", 2)], stdin_level: 0 },
        Target { name: ".", args: vec!["."], stdin: false, files: vec![("p/w/f.lua", 1), ("p/w/s/f.lua", 2), ("p/w/s/d/f.lua", 3)], stdin_level: 0 },
        Target { name: "../o.lua", args: vec!["../o.lua"], stdin: false, files: vec![("p/o.lua", 0)], stdin_level: 0 },
        Target { name: "abs:../o.lua", args: vec!["$ROOT/p/o.lua"], stdin: false, files: vec![("p/o.lua", 0)], stdin_level: 0 },
        // a symbolic link in the working directory to a file two levels down: the search starts where the NAME given lives
        Target { name: "lk.lua->s/d/f.lua", args: vec!["lk.lua"], stdin: false, files: vec![("p/w/s/d/f.lua", 1)], stdin_level: 0 },
        Target { name: "stdin", args: vec!["-"], stdin: true, files: vec![], stdin_level: 1 },
        Target { name: "stdin@f.lua", args: vec!["--stdin-filepath", "f.lua", "-"], stdin: true, files: vec![], stdin_level: 1 },
        Target { name: "stdin@s/f.lua", args: vec!["--stdin-filepath", "s/f.lua", "-"], stdin: true, files: vec![], stdin_level: 2 },
        Target { name: "stdin@s/d/f.lua", args: vec!["--stdin-filepath", "s/d/f.lua", "-"], stdin: true, files: vec![], stdin_level: 3 },
    ];
    let mut scs = vec![];
    // meta is carried in the description; the judge re-derives the expectation from it
    for sub in &subsets {
        for (ti, t) in targets.iter().enumerate() {
            for sp in [false, true] {
                for noec in [false, true] {
                    for over in [false, true] {
                        if !thorough && over && sub.len() > 1 {
                            continue;
                        }
                        let mut cps: Vec<Option<usize>> = vec![None];
                        if ti == 0 || t.name == "stdin" {
                            for i in sub.iter().filter(|i| !PLACES[**i].0.ends_with(".editorconfig")) {
                                cps.push(Some(*i));
                            }
                        }
                        for cp in cps {
                          for linked in [false, true] {
                            if linked && (sub.len() != 1 || over || cp.is_some() || noec) {
                                continue;
                            }
                            let mut tree = Tree::default();
                            for i in sub {
                                if linked {
                                    // the configuration file is a symbolic link to a regular file kept elsewhere
                                    let store = format!("_store/cfg{}", i);
                                    tree.add(&store, place_content(*i).as_bytes());
                                    let depth = PLACES[*i].0.matches('/').count();
                                    tree.link(PLACES[*i].0, &format!("{}{}", "../".repeat(depth), store));
                                } else {
                                    tree.add(PLACES[*i].0, place_content(*i).as_bytes());
                                }
                            }
                            for f in ["p/w/f.lua", "p/w/s/f.lua", "p/w/s/d/f.lua", "p/o.lua"] {
                                tree.add(f, PROBE.as_bytes());
                            }
                            tree.add("_home/", b"");
                            tree.add("_xdg/", b"");
                            if t.name.starts_with("lk.lua") {
                                tree.link("p/w/lk.lua", "s/d/f.lua");
                            }
                            let mut argv: Vec<String> = vec!["--color".into(), "Never".into()];
                            if sp {
                                argv.push("--search-parent-directories".into());
                            }
                            if noec {
                                argv.push("--no-editorconfig".into());
                            }
                            if over {
                                argv.push("--indent-type".into());
                                argv.push("Spaces".into());
                                argv.push("--indent-width".into());
                                argv.push(OVERRIDE_WIDTH.to_string());
                            }
                            if let Some(c) = cp {
                                argv.push("--config-path".into());
                                argv.push(format!("$ROOT/{}", PLACES[c].0));
                            }
                            for a in &t.args {
                                argv.push(a.to_string());
                            }
                            let desc = format!(
                                "C15 places={:?} target={} search_parents={} no_editorconfig={} override={} config_path={:?}{}",
                                sub.iter().map(|i| PLACES[*i].0).collect::<Vec<_>>(),
                                t.name,
                                sp,
                                noec,
                                over,
                                cp.map(|c| PLACES[c].0),
                                if linked { " linked-config" } else { "" }
                            );
                            scs.push((
                                Scenario { desc, tree, run: Run { argv, cwd: "p/w".into(), stdin: if t.stdin { Some(PROBE.as_bytes().to_vec()) } else { None }, ..Run::default() } },
                                (sub.clone(), ti, sp, noec, over, cp),
                            ));
                          }
                        }
                    }
                }
            }
        }
    }
    let metas: Vec<(Vec<usize>, usize, bool, bool, bool, Option<usize>)> = scs.iter().map(|x| x.1.clone()).collect();
    let mut only: Vec<Scenario> = scs.into_iter().map(|x| x.0).collect();
    // `$ROOT` inside argv is resolved by the executor through the environment substitution below
    for s in only.iter_mut() {
        s.run.env.push(("MC_ROOT_MARK".into(), "$ROOT".into()));
    }
    let idx: std::collections::HashMap<String, usize> = only.iter().enumerate().map(|(i, s)| (s.desc.clone(), i)).collect();
    run_all(only, "E2-C15", stats, |s, o| {
        let mut f = vec![];
        let (sub, ti, sp, noec, over, cp) = &metas[idx[&s.desc]];
        let t = &targets[*ti];
        if o.code != 0 {
            f.push(("exit-status".into(), format!("exit {}: {}", o.code, String::from_utf8_lossy(&o.stderr).chars().take(200).collect::<String>())));
            return f;
        }
        let judge_one = |what: &str, out: &str, level: usize, f: &mut Vec<(String, String)>| {
            let acc = c15_model(sub, level, *sp, *noec, *cp, *over);
            match indent_of(out) {
                Some(n) if acc.contains(&n) => {}
                got => f.push(("wrong-configuration".into(), format!("{}: indentation {:?} (0 = tabs), the documented search gives {:?}", what, got, acc))),
            }
        };
        if t.stdin {
            judge_one("stdout", &String::from_utf8_lossy(&o.stdout), t.stdin_level, &mut f);
        } else {
            for (p, level) in &t.files {
                match o.after.get(*p) {
                    Some(x) => judge_one(p, &String::from_utf8_lossy(&x.0), *level, &mut f),
                    None => f.push(("file-missing".into(), format!("{} is gone", p))),
                }
            }
        }
        f
    })
}

/// C15 addendum: per-file sections of one .editorconfig, several files in one invocation (the result for one file must
/// not leak to another file of the same directory)
pub fn c15_sections(stats: &mut Stats) -> Vec<Failure> {
    let ec = "root = true\n[*.lua]\nindent_style = space\n[f.lua]\nindent_size = 2\n[g.lua]\nindent_size = 3\n[s/f.lua]\nindent_size = 5\n[s/g.lua]\nindent_size = 6\n";
    let files = [("f.lua", 2usize), ("g.lua", 3), ("s/f.lua", 5), ("s/g.lua", 6)];
    let mut scs = vec![];
    // every ordered pair / triple of explicit files, and the directory
    let mut arglists: Vec<Vec<&str>> = vec![vec!["."], vec!["s", "f.lua"], vec!["g.lua", "s"]];
    for a in 0..4 {
        for b in 0..4 {
            if a != b {
                arglists.push(vec![files[a].0, files[b].0]);
                for c in 0..4 {
                    if c != a && c != b {
                        arglists.push(vec![files[a].0, files[b].0, files[c].0]);
                    }
                }
            }
        }
    }
    for args in arglists {
        for nt in [1, 4] {
            let mut t = Tree::default();
            t.add(".editorconfig", ec.as_bytes());
            for (p, _) in &files {
                t.add(p, PROBE.as_bytes());
            }
            let mut argv: Vec<String> = vec!["--color".into(), "Never".into(), "--num-threads".into(), nt.to_string()];
            argv.extend(args.iter().map(|s| s.to_string()));
            scs.push(Scenario { desc: format!("C15 editorconfig-sections args={:?} threads={}", args, nt), tree: t, run: Run { argv, ..Run::default() } });
        }
    }
    run_all(scs, "E2-C15", stats, |s, o| {
        let mut f = vec![];
        if o.code != 0 {
            f.push(("exit-status".into(), format!("exit {}", o.code)));
        }
        let files = [("f.lua", 2usize), ("g.lua", 3), ("s/f.lua", 5), ("s/g.lua", 6)];
        let args = s.desc.split("args=").nth(1).unwrap();
        for (p, n) in files {
            let selected = args.contains(&format!("\"{}\"", p)) || args.contains("\".\"") || (p.starts_with("s/") && args.contains("\"s\""));
            let got = indent_of(&String::from_utf8_lossy(&o.after[p].0));
            let want = if selected { Some(n) } else { indent_of(PROBE) };
            if selected && got != want {
                f.push(("wrong-configuration".into(), format!("{}: indentation {:?}, its own .editorconfig section says {}", p, got, n)));
            }
        }
        f
    })
}

/// C15 addendum: `.editorconfig` files that exist only BELOW the working directory (none at or above it): the nearest one at or
/// above the file's own directory applies — the question is asked per file, not once per run
pub fn c15_below(stats: &mut Stats) -> Vec<Failure> {
    let mut scs = vec![];
    let ec = |n: usize| format!("root = true\n[*.lua]\nindent_style = space\nindent_size = {}\n", n);
    // (has s/.editorconfig (size 2), has s/d/.editorconfig (size 3))
    for (has_s, has_d) in [(true, false), (false, true), (true, true)] {
        for (tname, args, stdin) in [
            ("s/f.lua", vec!["s/f.lua"], false),
            ("s/d/f.lua", vec!["s/d/f.lua"], false),
            ("f.lua+s/f.lua", vec!["f.lua", "s/f.lua"], false),
            ("s/d/f.lua+f.lua", vec!["s/d/f.lua", "f.lua"], false),
            (".", vec!["."], false),
            ("s", vec!["s"], false),
            ("abs:s/d/f.lua", vec!["$ROOT/w/s/d/f.lua"], false),
            ("stdin@s/f.lua", vec!["--stdin-filepath", "s/f.lua", "-"], true),
            ("stdin@s/d/f.lua", vec!["--stdin-filepath", "s/d/f.lua", "-"], true),
        ] {
            for noec in [false, true] {
                let mut t = Tree::default();
                for f in ["w/f.lua", "w/s/f.lua", "w/s/d/f.lua"] {
                    t.add(f, PROBE.as_bytes());
                }
                if has_s {
                    t.add("w/s/.editorconfig", ec(2).as_bytes());
                }
                if has_d {
                    t.add("w/s/d/.editorconfig", ec(3).as_bytes());
                }
                let mut argv: Vec<String> = vec!["--color".into(), "Never".into()];
                if noec {
                    argv.push("--no-editorconfig".into());
                }
                argv.extend(args.iter().map(|x| x.to_string()));
                let desc = format!("C15 editorconfig-below-cwd s={} s/d={} target={} no_editorconfig={}", has_s, has_d, tname, noec);
                scs.push(Scenario { desc, tree: t, run: Run { argv, cwd: "w".into(), stdin: if stdin { Some(PROBE.as_bytes().to_vec()) } else { None }, ..Run::default() } });
            }
        }
    }
    run_all(scs, "E2-C15", stats, |s, o| {
        let mut f = vec![];
        if o.code != 0 {
            f.push(("exit-status".into(), format!("exit {}", o.code)));
        }
        let has_s = s.desc.contains(" s=true");
        let has_d = s.desc.contains(" s/d=true");
        let noec = s.desc.ends_with("no_editorconfig=true");
        let target = s.desc.split("target=").nth(1).unwrap().split(' ').next().unwrap().to_string();
        // level of a file: 1 = w/, 2 = w/s/, 3 = w/s/d/
        let want = |level: usize| -> Option<usize> {
            if noec {
                return Some(0);
            }
            if level >= 3 && has_d {
                return Some(3);
            }
            if level >= 2 && has_s {
                return Some(2);
            }
            Some(0)
        };
        if s.run.stdin.is_some() {
            let level = if target.contains("s/d/") { 3 } else { 2 };
            let got = indent_of(&String::from_utf8_lossy(&o.stdout));
            if got != want(level) {
                f.push(("wrong-configuration".into(), format!("stdout: indentation {:?} (0 = tabs), the nearest .editorconfig at or above the path gives {:?}", got, want(level))));
            }
            return f;
        }
        for (p, level) in [("w/f.lua", 1usize), ("w/s/f.lua", 2), ("w/s/d/f.lua", 3)] {
            let rel = &p[2..];
            let selected = target == "." || target.split('+').any(|a| a.trim_start_matches("abs:") == rel) || (target == "s" && level >= 2);
            let text = String::from_utf8_lossy(&o.after[p].0).to_string();
            if !selected {
                if text != PROBE {
                    f.push(("unselected-file-changed".into(), format!("{} changed", p)));
                }
                continue;
            }
            let got = indent_of(&text);
            if got != want(level) {
                f.push(("wrong-configuration".into(), format!("{}: indentation {:?} (0 = tabs), the nearest .editorconfig at or above its directory gives {:?}", p, got, want(level))));
            }
        }
        f
    })
}

/// C16 addendum: names a shell user can meet but a string-minded program may trip over — a byte that is not UTF-8 in a file or
/// directory name, a space, a non-ASCII (valid) name, a leading dash: every Lua file below the argument is processed, once
pub fn c16_names(stats: &mut Stats) -> Vec<Failure> {
    let mut scs = vec![];
    let files = ["src/café.lua", "src/données/plain.lua", "src/sp ace.lua", "src/ünï.lua", "src/-dash.lua", "src/plain.lua", "src/données/note.txt"];
    for (aname, args) in [(".", vec!["."]), ("src", vec!["src"]), ("-- src", vec!["--", "src"]), ("abs", vec!["$ROOT/src"])] {
        for mode in ["write", "check-summary", "check-json"] {
            for (gname, gargs) in [("none", vec![]), ("**/*.lua", vec!["-g", "**/*.lua"])] {
                let mut t = Tree::default();
                for f in files {
                    t.add(f, UNF.as_bytes());
                }
                let mut argv: Vec<String> = vec!["--color".into(), "Never".into()];
                match mode {
                    "check-summary" => argv.extend(["--check".to_string(), "--output-format".to_string(), "Summary".to_string()]),
                    "check-json" => argv.extend(["--check".to_string(), "--output-format".to_string(), "Json".to_string()]),
                    _ => {}
                }
                argv.extend(gargs.iter().map(|x| x.to_string()));
                argv.extend(args.iter().map(|x| x.to_string()));
                let desc = format!("C16 odd-names args={} mode={} glob={}", aname, mode, gname);
                // the file first, then its directory
                let post = vec![("src/café.lua".to_string(), "latin1".to_string()), ("src/données".to_string(), "latin1".to_string())];
                scs.push(Scenario { desc, tree: t, run: Run { argv, post, ..Run::default() } });
            }
        }
    }
    run_all(scs, "E2-C16", stats, |s, o| {
        let mut f = vec![];
        let check = s.desc.contains("mode=check");
        let lua: Vec<&String> = o.before.keys().filter(|k| k.ends_with(".lua")).collect();
        if lua.len() != 6 {
            f.push(("machinery".into(), format!("the tree holds {} Lua files, 6 were meant", lua.len())));
            return f;
        }
        if check {
            if o.code != 1 {
                f.push(("exit-status".into(), format!("exit {} (6 unformatted files selected, expected 1): {}", o.code, String::from_utf8_lossy(&o.stderr).chars().take(160).collect::<String>())));
            }
            let out = String::from_utf8_lossy(&o.stdout).to_string();
            let n = if s.desc.contains("check-json") { out.lines().filter(|l| l.contains("\"mismatches\"")).count() } else { out.lines().filter(|l| l.trim_end().ends_with(".lua")).count() };
            if n != 6 {
                f.push(("wrong-selection".into(), format!("{} files reported, 6 Lua files are selected", n)));
            }
            if o.before != o.after {
                f.push(("check-wrote".into(), "the tree changed in --check mode".into()));
            }
        } else {
            if o.code != 0 {
                f.push(("exit-status".into(), format!("exit {}: {}", o.code, String::from_utf8_lossy(&o.stderr).chars().take(160).collect::<String>())));
            }
            for k in lua {
                if o.after.get(k).map(|x| x.0.as_slice()) != Some(b"local x = 1\n".as_slice()) {
                    f.push(("wrong-selection".into(), format!("selected but not formatted: {:?}", k)));
                }
            }
            for (k, v) in &o.after {
                if !k.ends_with(".lua") && o.before.get(k) != Some(v) {
                    f.push(("other-file-touched".into(), format!("{} changed", k)));
                }
            }
        }
        f
    })
}

// ======================================================================================================== C16
pub const C16_FILES: &[&str] = &["a.lua", "b.luau", "c.txt", ".h.lua", "s/d.lua", "s/.g/e.lua", "v/v.lua", "s/t/u.lua", "s/a.lua", "s/c.txt"];
/// symbolic links in the tree: a link to a file (selected like a file, but it IS its target: processed once), and a link to a
/// directory (not followed by the traversal; used for the spelling `lt/../a.lua`, which the OS resolves to s/a.lua)
pub const C16_LINKS: &[(&str, &str)] = &[("s/ln.lua", "../a.lua"), ("lt", "s/t")];
pub const C16_ARGS: &[&str] = &[".", "s", "a.lua", "./a.lua", "c.txt", "v/v.lua", "s/d.lua", ".h.lua", "s/t"];
/// further spellings, used alone and next to a few of the above: through links, and absolute
pub const C16_ARGS_EXTRA: &[&str] = &["s/ln.lua", "lt/../a.lua", "$ROOT", "$ROOT/s", "$ROOT/a.lua"];
/// ignore pattern lists (gitignore syntax); the model below implements exactly these
pub const C16_IGNORES: &[&str] = &["v/\n", "*.lua\n", "*.lua\n!a.lua\n", "s/d.lua\n", "d.lua\n"];
const UNF: &str = "local   x  =  1\n";

/// the file a path (as the traversal or the command line spells it, relative to the working directory) denotes
fn c16_canon(p: &str) -> String {
    let p = p.strip_prefix("./").unwrap_or(p);
    match p {
        "s/ln.lua" => "a.lua".to_string(),
        "lt/../a.lua" => "s/a.lua".to_string(),
        _ => p.to_string(),
    }
}

/// is `file` (path relative to cwd) excluded by the ignore file at `loc` ("" = cwd, "s" = s/) with pattern list `pi`?
fn c16_ignored(file: &str, loc: &str, pi: usize) -> bool {
    // the ignore file only governs its own subtree; patterns are relative to its directory
    let rel = if loc.is_empty() {
        file.to_string()
    } else {
        match file.strip_prefix(&format!("{}/", loc)) {
            Some(r) => r.to_string(),
            None => return false,
        }
    };
    let base = rel.rsplit('/').next().unwrap();
    match pi {
        0 => rel.starts_with("v/") || rel.contains("/v/"),
        1 => base.ends_with(".lua"),
        2 => base.ends_with(".lua") && base != "a.lua",
        3 => rel == "s/d.lua",
        _ => base == "d.lua",
    }
}

fn c16_glob_match(file: &str, globs: usize, luau: bool) -> bool {
    let base = file.rsplit('/').next().unwrap();
    match globs {
        0 => base.ends_with(".lua") || (luau && base.ends_with(".luau")),
        1 => base.ends_with(".txt"),
        2 => base.ends_with(".lua") && base != "d.lua",
        // only a negated pattern: everything but what it names
        3 => base != "d.lua",
        // a pattern with an inner `/` is anchored at the working directory: s/*.lua
        4 => file.strip_prefix("s/").map_or(false, |r| !r.contains('/') && r.ends_with(".lua")),
        // one pattern with a brace alternation (and therefore a comma): **/*.{lua,txt}
        _ => base.ends_with(".lua") || base.ends_with(".txt"),
    }
}

fn c16_hidden_below(file: &str, root: &str) -> bool {
    // hidden = a component starting with '.' below the traversal root
    let rel = if root == "." { file } else { file.strip_prefix(&format!("{}/", root)).unwrap_or(file) };
    rel.split('/').any(|c| c.starts_with('.'))
}

/// reference model: the set of files that are processed (each exactly once)
fn c16_model(args: &[&str], ign: Option<(&str, usize)>, globs: usize, respect: bool, allow_hidden: bool) -> std::collections::BTreeSet<String> {
    let mut set = std::collections::BTreeSet::new();
    for a in args {
        // an absolute spelling of the working directory or of something below it selects what the relative one selects
        let a: &str = match *a {
            "$ROOT" => ".",
            x => x.strip_prefix("$ROOT/").unwrap_or(x),
        };
        if a == "." || a == "s" || a == "s/t" {
            // what the traversal meets: the files, and the link to a file (the link to a directory is not followed)
            let mut cands: Vec<&str> = C16_FILES.to_vec();
            cands.push("s/ln.lua");
            for f in cands {
                let under = a == "." || f.starts_with(&format!("{}/", a));
                if !under {
                    continue;
                }
                if !c16_glob_match(f, globs, true) {
                    continue;
                }
                if !allow_hidden && c16_hidden_below(f, a) {
                    continue;
                }
                if let Some((loc, pi)) = ign {
                    if c16_ignored(f, loc, pi) {
                        continue;
                    }
                }
                set.insert(c16_canon(f));
            }
        } else {
            // a file named explicitly is formatted regardless, unless --respect-ignores is given
            let shown = a.strip_prefix("./").unwrap_or(a);
            if respect {
                if !c16_glob_match(shown, globs, true) {
                    continue;
                }
                if let Some((loc, pi)) = ign {
                    if c16_ignored(shown, loc, pi) {
                        continue;
                    }
                }
            }
            set.insert(c16_canon(shown));
        }
    }
    set
}

pub fn c16(thorough: bool, stats: &mut Stats) -> Vec<Failure> {
    let mut arglists: Vec<Vec<&str>> = vec![];
    for a in C16_ARGS {
        arglists.push(vec![a]);
        for b in C16_ARGS {
            arglists.push(vec![a, b]);
        }
    }
    for x in C16_ARGS_EXTRA {
        arglists.push(vec![x]);
        for y in [".", "s", "a.lua", "s/d.lua"] {
            arglists.push(vec![x, y]);
            arglists.push(vec![y, x]);
        }
    }
    if thorough {
        for a in C16_ARGS {
            for b in C16_ARGS {
                for c in [".", "s", "a.lua", "s/d.lua"] {
                    arglists.push(vec![a, b, c]);
                }
            }
        }
        for x in C16_ARGS_EXTRA {
            for y in C16_ARGS_EXTRA {
                arglists.push(vec![x, y]);
            }
        }
    }
    let mut igns: Vec<Option<(&str, usize)>> = vec![None];
    for loc in ["", "s"] {
        for pi in 0..C16_IGNORES.len() {
            igns.push(Some((loc, pi)));
        }
    }
    let mut metas = vec![];
    let mut scs = vec![];
    for args in &arglists {
        let extra = args.iter().any(|a| C16_ARGS_EXTRA.contains(a));
        for ign in &igns {
            for globs in 0..6usize {
                for respect in [false, true] {
                    for hidden in [false, true] {
                        for mode in ["write", "summary"] {
                            if !thorough && mode == "write" && args.len() > 1 && (globs != 0 || hidden) {
                                continue;
                            }
                            // a glob list without a positive pattern selects every file, including (with --allow-hidden)
                            // the `.styluaignore` file itself, which is not Lua: left out
                            if globs == 3 && hidden && ign.is_some() {
                                continue;
                            }
                            // how the ignore file found through `lt/..` and a glob see that spelling is not worth a model
                            if respect && args.contains(&"lt/../a.lua") {
                                continue;
                            }
                            // quick tier, lists of two arguments: a subset of the ignore lists and glob lists (single arguments
                            // take them all)
                            if !thorough && args.len() > 1 && (!matches!(ign, None | Some(("", 1)) | Some(("", 2)) | Some(("s", 1)) | Some(("s", 4))) || !matches!(globs, 0 | 2 | 4 | 5)) {
                                continue;
                            }
                            // the extra spellings: one ignore list per location and no hidden variants in the quick tier
                            if !thorough && extra && (hidden || matches!(ign, Some((_, pi)) if *pi != 1 && *pi != 2)) {
                                continue;
                            }
                            let mut t = Tree::default();
                            for f in C16_FILES {
                                t.add(f, UNF.as_bytes());
                            }
                            for (l, target) in C16_LINKS {
                                t.link(l, target);
                            }
                            if let Some((loc, pi)) = ign {
                                let p = if loc.is_empty() { ".styluaignore".to_string() } else { format!("{}/.styluaignore", loc) };
                                t.add(&p, C16_IGNORES[*pi].as_bytes());
                            }
                            let mut argv: Vec<String> = vec!["--color".into(), "Never".into()];
                            if mode == "summary" {
                                argv.extend(["--check".into(), "--output-format".into(), "Summary".into()]);
                            }
                            match globs {
                                1 => argv.extend(["-g".into(), "**/*.txt".into()]),
                                2 => argv.extend(["-g".into(), "**/*.lua".into(), "-g".into(), "!**/d.lua".into()]),
                                3 => argv.extend(["-g".into(), "!**/d.lua".into()]),
                                4 => argv.extend(["-g".into(), "s/*.lua".into()]),
                                5 => argv.extend(["-g".into(), "**/*.{lua,txt}".into()]),
                                _ => {}
                            }
                            if respect {
                                argv.push("--respect-ignores".into());
                            }
                            if hidden {
                                argv.push("--allow-hidden".into());
                            }
                            argv.push("--".into());
                            argv.extend(args.iter().map(|s| s.to_string()));
                            let desc = format!("C16 args={:?} styluaignore={:?} globs={} respect_ignores={} allow_hidden={} mode={}", args, ign.map(|(l, p)| (l, C16_IGNORES[p])), globs, respect, hidden, mode);
                            metas.push((args.clone(), *ign, globs, respect, hidden, mode));
                            scs.push(Scenario { desc, tree: t, run: Run { argv, ..Run::default() } });
                        }
                    }
                }
            }
        }
    }
    let idx: std::collections::HashMap<String, usize> = scs.iter().enumerate().map(|(i, s)| (s.desc.clone(), i)).collect();
    let mut outside = c16_outside(stats);
    outside.extend(c16_names(stats));
    let mut all = run_all(scs, "E2-C16", stats, |s, o| {
        let mut f = vec![];
        let (args, ign, globs, respect, hidden, mode) = &metas[idx[&s.desc]];
        let want = c16_model(args, *ign, *globs, *respect, *hidden);
        if *mode == "write" {
            if o.code != 0 {
                f.push(("exit-status".into(), format!("exit {}: {}", o.code, String::from_utf8_lossy(&o.stderr).chars().take(160).collect::<String>())));
            }
            let changed: std::collections::BTreeSet<String> = C16_FILES.iter().filter(|p| o.after.get(**p).map(|x| &x.0) != o.before.get(**p).map(|x| &x.0)).map(|p| p.to_string()).collect();
            if changed != want {
                let extra: Vec<&String> = changed.difference(&want).collect();
                let missing: Vec<&String> = want.difference(&changed).collect();
                f.push(("wrong-selection".into(), format!("formatted but not selected: {:?}; selected but not formatted: {:?}", extra, missing)));
            }
            for (k, v) in &o.after {
                // (a link shows the bytes of its target)
                if !C16_FILES.contains(&k.as_str()) && !C16_LINKS.iter().any(|(l, _)| l == k) && o.before.get(k) != Some(v) {
                    f.push(("other-file-touched".into(), format!("{} changed", k)));
                }
            }
        } else {
            let rootp = format!("{}/", o.root.to_string_lossy());
            let listed: Vec<String> = String::from_utf8_lossy(&o.stdout)
                .lines()
                .map(|l| l.trim().to_string())
                .filter(|l| !l.contains(' ') && (l.ends_with(".lua") || l.ends_with(".luau") || l.ends_with(".txt")))
                .map(|l| c16_canon(l.strip_prefix(&rootp).unwrap_or(&l)))
                .collect();
            let mut sorted = listed.clone();
            sorted.sort();
            let mut dedup = sorted.clone();
            dedup.dedup();
            if dedup.len() != sorted.len() {
                f.push(("processed-twice".into(), format!("a file is processed more than once: {:?}", sorted)));
            }
            let got: std::collections::BTreeSet<String> = dedup.into_iter().collect();
            if got != want {
                let extra: Vec<&String> = got.difference(&want).collect();
                let missing: Vec<&String> = want.difference(&got).collect();
                f.push(("wrong-selection".into(), format!("processed but not selected: {:?}; selected but not processed: {:?}", extra, missing)));
            }
        }
        f
    });
    all.append(&mut outside);
    all
}

/// C16 addendum: files named explicitly that lie OUTSIDE the working directory (no ignore file of the working directory
/// governs them): formatted, with and without --respect-ignores, under every spelling
fn c16_outside(stats: &mut Stats) -> Vec<Failure> {
    let mut scs = vec![];
    // (whether patterns of the working directory's ignore file that could match a path outside of it do reach it is
    // not specified anywhere — the two spellings of such a path even disagree; only patterns that cannot match are used)
    for ign in [None, Some("v/\n"), Some("a.lua\n")] {
        for oign in [None, Some("x.lua\n")] {
            for arg in ["$ROOT/o/x.lua", "../o/x.lua", "$ROOT/o/x.lua a.lua", "a.lua ../o/x.lua", "$ROOT/w/a.lua", "$ROOT/o"] {
                for respect in [false, true] {

                    let mut t = Tree::default();
                    t.add("w/a.lua", UNF.as_bytes());
                    t.add("o/x.lua", UNF.as_bytes());
                    t.add("o/y.txt", UNF.as_bytes());
                    if let Some(i) = ign {
                        t.add("w/.styluaignore", i.as_bytes());
                    }
                    if let Some(i) = oign {
                        t.add("o/.styluaignore", i.as_bytes());
                    }
                    let mut argv: Vec<String> = vec!["--color".into(), "Never".into()];
                    if respect {
                        argv.push("--respect-ignores".into());
                    }
                    argv.push("--".into());
                    argv.extend(arg.split(' ').map(|s| s.to_string()));
                    let desc = format!("C16 outside-cwd args={:?} cwd-styluaignore={:?} other-styluaignore={:?} respect_ignores={}", arg, ign, oign, respect);
                    scs.push(Scenario { desc, tree: t, run: Run { argv, cwd: "w".into(), ..Run::default() } });
                }
            }
        }
    }
    // the working directory lies BELOW a directory whose .styluaignore has a pattern anchored at that directory (`/build/`):
    // the pattern names repo/build, not repo/pkg/build — with and without --search-parent-directories
    for sp in [false, true] {
        for arg in [".", "build", "build/x.lua", "../build", ".."] {
            let mut t = Tree::default();
            t.add("repo/.styluaignore", b"/build/\n");
            t.add("repo/build/y.lua", UNF.as_bytes());
            t.add("repo/pkg/a.lua", UNF.as_bytes());
            t.add("repo/pkg/build/x.lua", UNF.as_bytes());
            let mut argv: Vec<String> = vec!["--color".into(), "Never".into()];
            if sp {
                argv.push("--search-parent-directories".into());
            }
            argv.push("--".into());
            argv.push(arg.into());
            let desc = format!("C16 below-anchored-ignore args={:?} search_parents={}", arg, sp);
            scs.push(Scenario { desc, tree: t, run: Run { argv, cwd: "repo/pkg".into(), ..Run::default() } });
        }
    }
    run_all(scs, "E2-C16", stats, |s, o| {
        let mut f = vec![];
        if s.desc.starts_with("C16 below-anchored-ignore") {
            // what the argument selects by itself; repo/build/ is excluded by the ancestor's pattern when the traversal starts
            // at or above repo (the ignore file of a parent directory of the traversal root is honoured by the walker)
            let arg = s.run.argv.last().unwrap().as_str();
            let mut want = std::collections::BTreeSet::new();
            match arg {
                "." => {
                    want.insert("repo/pkg/a.lua".to_string());
                    want.insert("repo/pkg/build/x.lua".to_string());
                }
                "build" | "build/x.lua" => {
                    want.insert("repo/pkg/build/x.lua".to_string());
                }
                ".." => {
                    want.insert("repo/pkg/a.lua".to_string());
                    want.insert("repo/pkg/build/x.lua".to_string());
                }
                _ => {} // `../build` is the excluded directory itself: what happens to it is the business of other scenarios
            }
            if arg == "../build" {
                return f;
            }
            if o.code != 0 {
                f.push(("exit-status".into(), format!("exit {}: {}", o.code, String::from_utf8_lossy(&o.stderr).chars().take(160).collect::<String>())));
            }
            let changed: std::collections::BTreeSet<String> = o.after.iter().filter(|(k, v)| k.ends_with(".lua") && o.before.get(*k).map(|x| &x.0) != Some(&v.0)).map(|(k, _)| k.clone()).collect();
            if changed != want {
                f.push(("wrong-selection".into(), format!("formatted: {:?}; selected: {:?}", changed, want)));
            }
            return f;
        }
        let respect = s.desc.contains("respect_ignores=true");
        let o_ignored = s.desc.contains("other-styluaignore=Some");
        let a_ignored = s.desc.contains("cwd-styluaignore=Some(\"a.lua");
        let mut want = std::collections::BTreeSet::new();
        let args: Vec<&str> = s.run.argv.iter().skip_while(|a| *a != "--").skip(1).map(|a| a.as_str()).collect();
        for a in &args {
            if a.ends_with("a.lua") && !(respect && a_ignored) {
                want.insert("w/a.lua".to_string());
            }
            if a.ends_with("o/x.lua") && !(respect && o_ignored) {
                want.insert("o/x.lua".to_string());
            }
            if a.ends_with("/o") && !o_ignored {
                want.insert("o/x.lua".to_string());
            }
        }
        if o.code != 0 {
            f.push(("exit-status".into(), format!("exit {}: {}", o.code, String::from_utf8_lossy(&o.stderr).chars().take(160).collect::<String>())));
        }
        let changed: std::collections::BTreeSet<String> = o.after.iter().filter(|(k, v)| o.before.get(*k).map(|x| &x.0) != Some(&v.0)).map(|(k, _)| k.clone()).collect();
        if changed != want {
            f.push(("wrong-selection".into(), format!("formatted: {:?}; selected: {:?}", changed, want)));
        }
        f
    })
}

// ======================================================================================================== C17
pub fn c17(thorough: bool, stats: &mut Stats) -> Vec<Failure> {
    let big = |mib: usize| -> Vec<u8> {
        let line = "local   x  =  { 1,2 ,3 }\n";
        line.repeat(mib * 1024 * 1024 / line.len()).into_bytes()
    };
    let mut inputs: Vec<(&str, Vec<u8>)> = vec![
        ("unformatted", b"local   x  =  1\nf( 'a' )\n".to_vec()),
        ("formatted", b"local x = 1\n".to_vec()),
        ("invalid", b"local x = = 1\n".to_vec()),
        ("empty", b"".to_vec()),
        ("whitespace", b"  \n\n".to_vec()),
        ("crlf", b"local   x  =  1\r\ndo\r\nx()\r\nend\r\n".to_vec()),
        ("no-final-newline", b"do\nx()\nend".to_vec()),
        ("1MiB", big(1)),
        // a long last line without a final newline (short writes / line buffering)
        ("long-last-line", {
            let mut v = b"-- header\nlocal t = { ".to_vec();
            v.extend(std::iter::repeat(b"1, ".to_vec()).take(1400).flatten());
            v.extend_from_slice(b"2 }");
            v
        }),
        ("1MiB-one-line", {
            let mut v = b"local s = \"".to_vec();
            v.extend(std::iter::repeat(b'a').take(1024 * 1024));
            v.extend_from_slice(b"\"");
            v
        }),
    ];
    // a multi-byte character across every offset of the form k * 4 KiB, k a power of two (where a chunked reader would cut)
    for boundary in [4096usize, 8192, 16384, 32768, 65536] {
        for ch in ["é", "€", "😀"] {
            for split in 1..ch.len() {
                let head = "-- ";
                let mut v = head.as_bytes().to_vec();
                v.extend(std::iter::repeat(b'a').take(boundary - split - head.len()));
                v.extend_from_slice(ch.as_bytes());
                v.extend_from_slice(b"\nlocal   x  =  1\n");
                let name: &'static str = Box::leak(format!("utf8@{}-{}/{}", boundary, split, ch.len()).into_boxed_str());
                inputs.push((name, v));
            }
        }
    }
    if thorough {
        inputs.push(("4MiB", big(4)));
        inputs.push(("16MiB", big(16)));
    }
    // (name, extra args, cfg transformer)
    let opt_sets: Vec<(&str, Vec<&str>)> = vec![
        ("plain", vec![]),
        ("verify", vec!["--verify"]),
        ("opts", vec!["--indent-type", "Spaces", "--indent-width", "3", "--quote-style", "ForceSingle", "--line-endings", "Windows"]),
        ("range", vec!["--range-start", "0", "--range-end", "16"]),
        ("check-standard", vec!["--check"]),
        ("check-unified", vec!["--check", "--output-format", "Unified"]),
        ("check-json", vec!["--check", "--output-format", "Json"]),
        ("check-summary", vec!["--check", "--output-format", "Summary"]),
        // a range given by one bound only
        ("range-start-only", vec!["--range-start", "17"]),
        ("range-end-only", vec!["--range-end", "15"]),
        // the log level variable must not change status or output
        ("log=off", vec![]),
        ("log=debug", vec![]),
        // a forced configuration file (2-space indentation), alone and under a command line flag
        ("config-path", vec!["--config-path", "forced/custom.toml"]),
        ("config-path+flag", vec!["--config-path", "forced/custom.toml", "--indent-width", "7", "--quote-style", "ForceSingle"]),
        // an ignore file with a line the glob parser rejects is nobody's business unless --respect-ignores is given
        ("bad-ignore-file", vec![]),
        // the smallest thread counts
        ("threads=1", vec!["--num-threads", "1"]),
        ("threads=0", vec!["--num-threads", "0"]),
        // the user-level configuration in $HOME/.config while $XDG_CONFIG_HOME is set and holds nothing
        ("home-config", vec!["--search-parent-directories"]),
        // a positive --glob pattern must not filter the stdin pseudo-file
        ("glob", vec!["-g", "**/*.lua"]),
        // an .editorconfig is present in these two (stylua.toml, when there, still comes first)
        ("editorconfig", vec![]),
        ("no-editorconfig", vec!["--no-editorconfig"]),
        // the JSON format without --check (editor integrations ask for machine-readable errors): the text still goes to stdout
        ("json-no-check", vec!["--output-format", "Json"]),
        ("verbose", vec!["--verbose"]),
    ];
    let filepaths: Vec<(&str, Vec<&str>)> = vec![
        ("none", vec![]),
        ("src/x.lua", vec!["--stdin-filepath", "src/x.lua"]),
        ("ignored.lua", vec!["--stdin-filepath", "ignored.lua"]),
        ("ignored.lua+respect", vec!["--respect-ignores", "--stdin-filepath", "ignored.lua"]),
        ("src/x.lua+respect", vec!["--respect-ignores", "--stdin-filepath", "src/x.lua"]),
        // a path re-included by a negated pattern is not ignored; its sibling is
        ("vendor/patched.lua+respect", vec!["--respect-ignores", "--stdin-filepath", "vendor/patched.lua"]),
        ("vendor/other.lua+respect", vec!["--respect-ignores", "--stdin-filepath", "vendor/other.lua"]),
        // paths outside the working directory (no ignore file governs them)
        ("abs-outside+respect", vec!["--respect-ignores", "--stdin-filepath", "/nonexistent-mc-dir/x.lua"]),
        ("../outside+respect", vec!["--respect-ignores", "--stdin-filepath", "../outside-mc/x.lua"]),
        ("abs-inside+respect", vec!["--respect-ignores", "--stdin-filepath", "$ROOT/src/x.lua"]),
        ("abs-ignored+respect", vec!["--respect-ignores", "--stdin-filepath", "$ROOT/ignored.lua"]),
    ];
    let mut scs = vec![];
    let mut metas = vec![];
    for (iname, bytes) in &inputs {
        for (oname, oargs) in &opt_sets {
            for (fname, fargs) in &filepaths {
                for with_cfg in [false, true] {
                    if (bytes.len() > 100_000 || iname.starts_with("utf8@")) && (*oname != "plain" || !matches!(*fname, "none" | "ignored.lua+respect") || with_cfg) {
                        continue;
                    }
                    // which configuration governs a path outside the working directory is C15's subject: defaults only here
                    if with_cfg && fname.contains("outside") {
                        continue;
                    }
                    if *oname == "bad-ignore-file" && fname.contains("+respect") {
                        continue;
                    }
                    let mut t = Tree::default();
                    if *oname == "bad-ignore-file" {
                        t.add(".styluaignore", b"vendor/[old\n");
                    } else {
                        t.add(".styluaignore", b"ignored.lua\nvendor/*\n!vendor/patched.lua\n");
                    }
                    t.add("src/keep.lua", b"local   untouched  =  1\n");
                    if with_cfg {
                        t.add("stylua.toml", b"indent_type = \"Spaces\"\nindent_width = 2\n");
                    }
                    if oname.starts_with("config-path") {
                        t.add("forced/custom.toml", b"indent_type = \"Spaces\"\nindent_width = 6\n");
                    }
                    if *oname == "home-config" {
                        t.add("_home/.config/stylua/stylua.toml", b"indent_type = \"Spaces\"\nindent_width = 3\nquote_style = \"AutoPreferSingle\"\n");
                        t.add("_xdg/", b"");
                    }
                    if oname.ends_with("editorconfig") {
                        t.add(".editorconfig", b"root = true\n[*.lua]\nindent_style = space\nindent_size = 5\nquote_type = single\n");
                    }
                    let mut argv: Vec<String> = vec!["--color".into(), "Never".into()];
                    argv.extend(oargs.iter().map(|s| s.to_string()));
                    argv.extend(fargs.iter().map(|s| s.to_string()));
                    argv.push("-".into());
                    let desc = format!("C17 input={} options={} stdin_filepath={} stylua.toml={}", iname, oname, fname, with_cfg);
                    metas.push((iname.to_string(), oname.to_string(), fname.to_string(), with_cfg));
                    let env: Vec<(String, String)> = match *oname {
                        "log=off" => vec![("STYLUA_LOG".into(), "off".into())],
                        "log=debug" => vec![("STYLUA_LOG".into(), "debug".into())],
                        _ => vec![],
                    };
                    scs.push(Scenario { desc, tree: t.clone(), run: Run { argv: argv.clone(), stdin: Some(bytes.clone()), env, ..Run::default() } });
                    // the same from a sub-directory with --search-parent-directories: the configuration (and the ignore
                    // file) of the parent must be found
                    if bytes.len() < 100_000 && *oname == "plain" && !iname.starts_with("utf8@") {
                        let mut argv2 = argv.clone();
                        argv2.insert(2, "--search-parent-directories".into());
                        let desc = format!("C17 input={} options=plain+search-parents(cwd=deep/er) stdin_filepath={} stylua.toml={}", iname, fname, with_cfg);
                        // --stdin-filepath is resolved against the working directory: keep only the forms that do not depend on it
                        if *fname == "none" {
                            metas.push((iname.to_string(), oname.to_string(), fname.to_string(), with_cfg));
                            scs.push(Scenario { desc, tree: t, run: Run { argv: argv2, cwd: "deep/er".into(), stdin: Some(bytes.clone()), ..Run::default() } });
                        }
                    }
                }
            }
        }
    }
    let idx: std::collections::HashMap<String, usize> = scs.iter().enumerate().map(|(i, s)| (s.desc.clone(), i)).collect();
    run_all(scs, "E2-C17", stats, |s, o| {
        let mut f = vec![];
        let (iname, oname, fname, with_cfg) = &metas[idx[&s.desc]];
        let input = String::from_utf8_lossy(s.run.stdin.as_ref().unwrap()).to_string();
        if o.before != o.after {
            f.push(("stdin-wrote-files".into(), "the file system changed in stdin mode".into()));
        }
        let mut cfg = Cfg::default();
        if *with_cfg {
            cfg.it = 1;
            cfg.iw = 2;
        }
        if oname == "opts" {
            cfg.it = 1;
            cfg.iw = 3;
            cfg.qs = 3;
            cfg.le = 1;
        }
        if oname == "home-config" && !*with_cfg {
            cfg.it = 1;
            cfg.iw = 3;
            cfg.qs = 1;
        }
        if oname.starts_with("config-path") {
            // the forced file replaces whatever the search would find
            cfg = Cfg::default();
            cfg.it = 1;
            cfg.iw = 6;
            if oname == "config-path+flag" {
                cfg.iw = 7;
                cfg.qs = 3;
            }
        }
        if oname == "editorconfig" && !*with_cfg && !fname.contains("outside") {
            cfg.it = 1;
            cfg.iw = 5;
            cfg.qs = 1;
        }
        let range = match oname.as_str() {
            "range" => Some((Some(0usize), Some(16usize))),
            "range-start-only" => Some((Some(17usize), None)),
            "range-end-only" => Some((None, Some(15usize))),
            _ => None,
        };
        let skipped = matches!(fname.as_str(), "ignored.lua+respect" | "vendor/other.lua+respect" | "abs-ignored+respect");
        let expected: Option<String> = if skipped {
            Some(input.clone())
        } else {
            match crate::explore::run_format(&input, &cfg, 120, range).0 {
                crate::explore::Out::Ok(x) => Some(x),
                _ => None,
            }
        };
        let stdout = String::from_utf8_lossy(&o.stdout).to_string();
        let check = oname.starts_with("check");
        match (&expected, check) {
            (None, _) => {
                if o.code != 2 {
                    f.push(("exit-status".into(), format!("exit {} for input that does not parse (expected 2)", o.code)));
                }
                // (the summary format frames its report with a header and a footer line: that is not formatted text)
                if !stdout.is_empty() && oname != "check-summary" {
                    f.push(("stdout-on-error".into(), format!("{} bytes on stdout although the input does not parse", stdout.len())));
                }
            }
            (Some(exp), false) => {
                if o.code != 0 {
                    f.push(("exit-status".into(), format!("exit {} (expected 0): {}", o.code, String::from_utf8_lossy(&o.stderr).chars().take(120).collect::<String>())));
                }
                if stdout != *exp {
                    let at = stdout.bytes().zip(exp.bytes()).position(|(a, b)| a != b).unwrap_or(stdout.len().min(exp.len()));
                    f.push(("stdout-differs".into(), format!("stdout ({} bytes) is not the library output ({} bytes); first difference at byte {}", stdout.len(), exp.len(), at)));
                }
            }
            (Some(exp), true) => {
                let differs = *exp != input;
                let want = if differs { 1 } else { 0 };
                if o.code != want {
                    f.push(("exit-status".into(), format!("exit {} in --check mode, input {} its formatted form", o.code, if differs { "differs from" } else { "equals" })));
                }
                if oname == "check-unified" && differs {
                    match apply_unified(&input, &stdout) {
                        Ok(r) if r == *exp => {}
                        Ok(_) => f.push(("unified-does-not-reconstruct".into(), "the unified diff of stdin does not reconstruct the formatted text".into())),
                        Err(e) => f.push(("unified-malformed".into(), e)),
                    }
                }
                if !differs && oname != "check-summary" && !stdout.is_empty() {
                    f.push(("diff-for-formatted-input".into(), "a diff is printed for formatted input".into()));
                }
            }
        }
        let _ = iname;
        f
    })
}

// ======================================================================================================== C20
/// (option, toml key, flag, [(documented value, toml literal, flag value, editorconfig (key, value) if any, cfg mutator)])
pub fn c20(_thorough: bool, stats: &mut Stats) -> Vec<Failure> {
    // a probe whose formatting reveals every option
    let probe = "local t = { a = 'x', b = \"y\" }\nfunction f(a) return a end\nif a then return end\nf'str'\ng{ 1 }\nlocal z = require('z')\nlocal y = require('y')\nlocal s = [[l1\nl2]]\nlocal longname = call(argument_number_one, argument_number_two, argument_number_three) + other(argument)\nlocal u = a // b\n";
    struct V {
        opt: &'static str,
        toml: String,
        flag: Vec<String>,
        ec: Option<(&'static str, String)>,
        cfg: Cfg,
    }
    let mut vals: Vec<V> = vec![];
    let d = Cfg::default();
    let case_variants = |v: &str| vec![v.to_string(), v.to_lowercase(), v.to_uppercase()];
    for (i, name) in ["Unix", "Windows"].iter().enumerate() {
        for fv in case_variants(name) {
            vals.push(V { opt: "line_endings", toml: format!("line_endings = \"{}\"", name), flag: vec!["--line-endings".into(), fv], ec: Some(("end_of_line", if i == 0 { "lf".into() } else { "crlf".into() })), cfg: Cfg { le: i as u8, ..d } });
        }
    }
    for (i, name) in ["Tabs", "Spaces"].iter().enumerate() {
        for fv in case_variants(name) {
            vals.push(V { opt: "indent_type", toml: format!("indent_type = \"{}\"", name), flag: vec!["--indent-type".into(), fv], ec: Some(("indent_style", if i == 0 { "tab".into() } else { "space".into() })), cfg: Cfg { it: i as u8, ..d } });
        }
    }
    for w in [1usize, 2, 3, 8] {
        vals.push(V { opt: "indent_width", toml: format!("indent_type = \"Spaces\"\nindent_width = {}", w), flag: vec!["--indent-type".into(), "Spaces".into(), "--indent-width".into(), w.to_string()], ec: Some(("indent_style = space\nindent_size", w.to_string())), cfg: Cfg { it: 1, iw: w, ..d } });
    }
    for (i, name) in crate::cfg::QS_NAMES.iter().enumerate() {
        for fv in case_variants(name) {
            let ec = match i {
                0 => Some(("quote_type", "double".to_string())),
                1 => Some(("quote_type", "single".to_string())),
                _ => None,
            };
            vals.push(V { opt: "quote_style", toml: format!("quote_style = \"{}\"", name), flag: vec!["--quote-style".into(), fv], ec, cfg: Cfg { qs: i as u8, ..d } });
        }
    }
    for (i, name) in crate::cfg::CP_NAMES.iter().enumerate() {
        for fv in case_variants(name) {
            let ec = Some(("call_parentheses", name.to_string()));
            vals.push(V { opt: "call_parentheses", toml: format!("call_parentheses = \"{}\"", name), flag: vec!["--call-parentheses".into(), fv], ec, cfg: Cfg { cp: i as u8, ..d } });
        }
    }
    for (i, name) in crate::cfg::CS_NAMES.iter().enumerate() {
        for fv in case_variants(name) {
            vals.push(V { opt: "collapse_simple_statement", toml: format!("collapse_simple_statement = \"{}\"", name), flag: vec!["--collapse-simple-statement".into(), fv], ec: Some(("collapse_simple_statement", name.to_string())), cfg: Cfg { cs: i as u8, ..d } });
        }
    }
    for (i, name) in crate::cfg::SAFN_NAMES.iter().enumerate() {
        for fv in case_variants(name) {
            vals.push(V { opt: "space_after_function_names", toml: format!("space_after_function_names = \"{}\"", name), flag: vec!["--space-after-function-names".into(), fv], ec: Some(("space_after_function_names", name.to_string())), cfg: Cfg { safn: i as u8, ..d } });
        }
    }
    vals.push(V { opt: "sort_requires", toml: "[sort_requires]\nenabled = true".into(), flag: vec!["--sort-requires".into()], ec: Some(("sort_requires", "true".into())), cfg: Cfg { sort: true, ..d } });
    vals.push(V { opt: "sort_requires", toml: "[sort_requires]\nenabled = false".into(), flag: vec![], ec: Some(("sort_requires", "false".into())), cfg: d });
    let widths = [0usize, 1, 20, 40, 80, 120];
    let mut wvals = vec![];
    for w in widths {
        wvals.push((w, V { opt: "column_width", toml: format!("column_width = {}", w), flag: vec!["--column-width".into(), w.to_string()], ec: Some(("max_line_length", w.to_string())), cfg: d }));
    }
    for (name, syn) in [("All", crate::cfg::Syn::All), ("Lua51", crate::cfg::Syn::Lua51), ("Lua52", crate::cfg::Syn::Lua52), ("Lua53", crate::cfg::Syn::Lua53), ("Lua54", crate::cfg::Syn::Lua54), ("LuaJIT", crate::cfg::Syn::LuaJIT), ("Luau", crate::cfg::Syn::Luau)] {
        for fv in case_variants(name) {
            vals.push(V { opt: "syntax", toml: format!("syntax = \"{}\"", name), flag: vec!["--syntax".into(), fv], ec: None, cfg: d.with_syn(syn) });
        }
    }
    let mut scs = vec![];
    let mut metas: Vec<(String, usize, Cfg, bool)> = vec![]; // (kind, width, cfg, expect_reject)
    let mut push = |desc: String, tree: Tree, argv: Vec<String>, cfg: Cfg, w: usize, reject: bool, scs: &mut Vec<Scenario>, metas: &mut Vec<(String, usize, Cfg, bool)>| {
        metas.push((desc.clone(), w, cfg, reject));
        scs.push(Scenario { desc, tree, run: Run { argv, ..Run::default() } });
    };
    let all: Vec<(usize, &V)> = vals.iter().map(|v| (120usize, v)).chain(wvals.iter().map(|(w, v)| (*w, v))).collect();
    for (w, v) in &all {
        // carrier 1: stylua.toml
        let mut t = Tree::default();
        t.add("f.lua", probe.as_bytes());
        t.add("stylua.toml", format!("{}\n", v.toml).as_bytes());
        push(format!("C20 option={} carrier=stylua.toml value={:?}", v.opt, v.toml), t, vec!["--color".into(), "Never".into(), "f.lua".into()], v.cfg, *w, false, &mut scs, &mut metas);
        // carrier 2: flag
        let mut t = Tree::default();
        t.add("f.lua", probe.as_bytes());
        let mut argv: Vec<String> = vec!["--color".into(), "Never".into()];
        argv.extend(v.flag.clone());
        argv.push("f.lua".into());
        push(format!("C20 option={} carrier=flag value={:?}", v.opt, v.flag), t, argv, v.cfg, *w, false, &mut scs, &mut metas);
        // carrier 3: .editorconfig
        if let Some((k, val)) = &v.ec {
            for valv in [val.clone(), val.to_uppercase()] {
                let mut t = Tree::default();
                t.add("f.lua", probe.as_bytes());
                t.add(".editorconfig", format!("root = true\n[*.lua]\n{} = {}\n", k, valv).as_bytes());
                push(format!("C20 option={} carrier=.editorconfig value={:?}", v.opt, format!("{} = {}", k, valv)), t, vec!["--color".into(), "Never".into(), "f.lua".into()], v.cfg, *w, false, &mut scs, &mut metas);
            }
        }
    }
    // max_line_length = off
    {
        let mut t = Tree::default();
        t.add("f.lua", probe.as_bytes());
        t.add(".editorconfig", b"root = true\n[*.lua]\nmax_line_length = off\n");
        push("C20 option=column_width carrier=.editorconfig value=\"max_line_length = off\"".into(), t, vec!["--color".into(), "Never".into(), "f.lua".into()], d, usize::MAX, false, &mut scs, &mut metas);
    }
    // malformed configuration files: every key misspelled by one character, values of another type, unknown key / table, duplicate key
    let good: Vec<(&str, &str)> = vec![
        ("syntax", "\"Lua51\""),
        ("column_width", "100"),
        ("line_endings", "\"Unix\""),
        ("indent_type", "\"Spaces\""),
        ("indent_width", "2"),
        ("quote_style", "\"ForceDouble\""),
        ("call_parentheses", "\"None\""),
        ("collapse_simple_statement", "\"Always\""),
        ("space_after_function_names", "\"Always\""),
    ];
    let mut bad: Vec<String> = vec![];
    for (k, v) in &good {
        // one character dropped, doubled, replaced at three positions
        for pos in [0, k.len() / 2, k.len() - 1] {
            let mut dropped = k.to_string();
            dropped.remove(pos);
            bad.push(format!("{} = {}", dropped, v));
            let mut repl: Vec<char> = k.chars().collect();
            repl[pos] = 'x';
            bad.push(format!("{} = {}", repl.iter().collect::<String>(), v));
        }
        bad.push(format!("{} = {}", k.to_uppercase(), v));
        // value of another type
        let other = if v.starts_with('"') { "5" } else { "\"five\"" };
        bad.push(format!("{} = {}", k, other));
        bad.push(format!("{} = true", k));
        bad.push(format!("{} = [1]", k));
        if v.starts_with('"') {
            bad.push(format!("{} = \"NoSuchValue\"", k));
        } else {
            bad.push(format!("{} = -1", k));
            bad.push(format!("{} = 1.5", k));
        }
        // duplicate key
        bad.push(format!("{} = {}\n{} = {}", k, v, k, v));
    }
    bad.push("unknown_key = 1".into());
    bad.push("[unknown_table]\nx = 1".into());
    bad.push("[sort_requires]\nenable = true".into());
    bad.push("[sort_requires]\nenabled = \"yes\"".into());
    bad.push("[sort_requires]\nenabled = true\nextra = 1".into());
    bad.push("sort_requires = true".into());
    bad.push("indent_width = ".into());
    bad.push("= 3".into());
    for b in bad {
        for target in ["f.lua", "sub/g.lua", "."] {
            let mut t = Tree::default();
            t.add("f.lua", probe.as_bytes());
            t.add("sub/g.lua", probe.as_bytes());
            t.add("stylua.toml", format!("{}\n", b).as_bytes());
            push(format!("C20 malformed stylua.toml {:?} target={}", b, target), t, vec!["--color".into(), "Never".into(), target.into()], d, 120, true, &mut scs, &mut metas);
        }
    }
    // a malformed file in every other place the search consults (a representative of each way of being malformed)
    let bad_reps = ["indnt_width = 2", "indent_width = \"five\"", "unknown_key = 1", "[unknown_table]\nx = 1", "[sort_requires]\nenable = true", "quote_style = \"NoSuchValue\""];
    // (place of the file relative to the scratch root, extra arguments, working directory)
    let places: Vec<(&str, Vec<&str>, &str)> = vec![
        ("w/.stylua.toml", vec![], "w"),
        ("stylua.toml", vec!["--search-parent-directories"], "w"),
        (".stylua.toml", vec!["--search-parent-directories"], "w"),
        ("elsewhere/cfg.toml", vec!["--config-path", "$ROOT/elsewhere/cfg.toml"], "w"),
        ("_xdg/stylua.toml", vec!["--search-parent-directories"], "w"),
        ("_xdg/stylua/stylua.toml", vec!["--search-parent-directories"], "w"),
        ("_home/.config/stylua.toml", vec!["--search-parent-directories"], "w"),
        ("_home/.config/stylua/stylua.toml", vec!["--search-parent-directories"], "w"),
    ];
    for b in bad_reps {
        for (place, extra, cwd) in &places {
            for target in ["f.lua", "sub/g.lua", "-"] {
                let mut t = Tree::default();
                t.add("w/f.lua", probe.as_bytes());
                t.add("w/sub/g.lua", probe.as_bytes());
                t.add("_home/", b"");
                t.add("_xdg/", b"");
                t.add(place, format!("{}\n", b).as_bytes());
                let mut argv: Vec<String> = vec!["--color".into(), "Never".into()];
                argv.extend(extra.iter().map(|x| x.to_string()));
                argv.push(target.into());
                let desc = format!("C20 malformed {} {:?} target={}", place, b, target);
                metas.push((desc.clone(), 120, d, true));
                scs.push(Scenario { desc, tree: t, run: Run { argv, cwd: cwd.to_string(), stdin: if target == "-" { Some(probe.as_bytes().to_vec()) } else { None }, ..Run::default() } });
            }
        }
    }
    // one invocation over two directories, the FIRST of which has a malformed stylua.toml: rejected, and no file is modified
    for b in bad_reps {
        let mut t = Tree::default();
        t.add("bad/stylua.toml", format!("{}\n", b).as_bytes());
        t.add("bad/a.lua", probe.as_bytes());
        t.add("good/b.lua", probe.as_bytes());
        for args in [vec!["bad", "good"], vec!["bad/a.lua", "good/b.lua"]] {
            let mut argv: Vec<String> = vec!["--color".into(), "Never".into(), "--num-threads".into(), "1".into()];
            argv.extend(args.iter().map(|x| x.to_string()));
            let desc = format!("C20 malformed bad/stylua.toml {:?} next to a healthy directory args={:?}", b, args);
            metas.push((desc.clone(), 120, d, true));
            scs.push(Scenario { desc, tree: t.clone(), run: Run { argv, ..Run::default() } });
        }
    }
    // every carrier again with the text coming from stdin (two more callers of the configuration code), and the flag in
    // the presence of a file / .editorconfig that says something else (the flag still means what it says)
    for (w, v) in &all {
        let Some(other) = all.iter().find(|(w2, v2)| v2.opt == v.opt && (v2.cfg != v.cfg || w2 != w)) else { continue };
        for (tname, targs) in [("stdin", vec!["-"]), ("stdin@f.lua", vec!["--stdin-filepath", "f.lua", "-"])] {
            for carrier in ["stylua.toml", "flag", ".editorconfig", "flag-over-stylua.toml", "flag-over-.editorconfig", "flag-over---config-path"] {
                let mut t = Tree::default();
                t.add("keep.lua", b"local x = 1\n");
                let mut argv: Vec<String> = vec!["--color".into(), "Never".into()];
                match carrier {
                    "stylua.toml" => {
                        t.add("stylua.toml", format!("{}\n", v.toml).as_bytes());
                    }
                    "flag" => argv.extend(v.flag.clone()),
                    ".editorconfig" => match &v.ec {
                        Some((k, val)) => {
                            t.add(".editorconfig", format!("root = true\n[*.lua]\n{} = {}\n", k, val).as_bytes());
                        }
                        None => continue,
                    },
                    "flag-over-stylua.toml" => {
                        if v.flag.is_empty() {
                            continue;
                        }
                        t.add("stylua.toml", format!("{}\n", other.1.toml).as_bytes());
                        argv.extend(v.flag.clone());
                    }
                    "flag-over---config-path" => {
                        if v.flag.is_empty() {
                            continue;
                        }
                        t.add("elsewhere/custom.toml", format!("{}\n", other.1.toml).as_bytes());
                        argv.extend(["--config-path".to_string(), "elsewhere/custom.toml".to_string()]);
                        argv.extend(v.flag.clone());
                    }
                    _ => {
                        if v.flag.is_empty() {
                            continue;
                        }
                        match &other.1.ec {
                            Some((k, val)) => {
                                t.add(".editorconfig", format!("root = true\n[*.lua]\n{} = {}\n", k, val).as_bytes());
                            }
                            None => continue,
                        }
                        argv.extend(v.flag.clone());
                    }
                }
                argv.extend(targs.iter().map(|x| x.to_string()));
                let desc = format!("C20 option={} carrier={} value={:?} width={} target={}", v.opt, carrier, if carrier.starts_with("flag") { format!("{:?}", v.flag) } else { v.toml.clone() }, w, tname);
                if metas.iter().any(|m| m.0 == desc) {
                    continue;
                }
                metas.push((desc.clone(), *w, v.cfg, false));
                scs.push(Scenario { desc, tree: t, run: Run { argv, stdin: Some(probe.as_bytes().to_vec()), ..Run::default() } });
            }
        }
    }
    // indent_width also matters under Tabs: it is the width a tab counts for when a line is measured. A statement two levels
    // deep that fits 40 columns only when a tab counts 1..4
    let tab_probe = "do\n\tdo\n\t\tlocal value = call(alpha, beta)\n\tend\nend\n";
    for iw in [1usize, 4, 8] {
        let cfgv = Cfg { it: 0, iw, ..d };
        let carriers: Vec<(&str, Option<String>, Option<String>, Vec<String>)> = vec![
            ("stylua.toml", Some(format!("column_width = 40\nindent_type = \"Tabs\"\nindent_width = {}\n", iw)), None, vec![]),
            ("flag", None, None, vec!["--column-width".into(), "40".into(), "--indent-type".into(), "Tabs".into(), "--indent-width".into(), iw.to_string()]),
            (".editorconfig", None, Some(format!("root = true\n[*.lua]\nmax_line_length = 40\nindent_style = tab\nindent_size = {}\n", iw)), vec![]),
            (".editorconfig(tab_width)", None, Some(format!("root = true\n[*.lua]\nmax_line_length = 40\nindent_style = tab\nindent_size = tab\ntab_width = {}\n", iw)), vec![]),
        ];
        for (cname, toml, ec, flags) in carriers {
            let mut t = Tree::default();
            t.add("f.lua", tab_probe.as_bytes());
            if let Some(x) = &toml {
                t.add("stylua.toml", x.as_bytes());
            }
            if let Some(x) = &ec {
                t.add(".editorconfig", x.as_bytes());
            }
            let mut argv: Vec<String> = vec!["--color".into(), "Never".into()];
            argv.extend(flags.clone());
            argv.push("f.lua".into());
            let desc = format!("C20 option=indent_width(Tabs) carrier={} value={} width=40 probe=tab", cname, iw);
            metas.push((desc.clone(), 40, cfgv, false));
            scs.push(Scenario { desc, tree: t, run: Run { argv, ..Run::default() } });
        }
    }
    // the same three with a FILE target: the flag over a forced configuration file
    for (w, v) in &all {
        let Some(other) = all.iter().find(|(w2, v2)| v2.opt == v.opt && (v2.cfg != v.cfg || w2 != w)) else { continue };
        if v.flag.is_empty() {
            continue;
        }
        let mut t = Tree::default();
        t.add("f.lua", probe.as_bytes());
        t.add("elsewhere/custom.toml", format!("{}\n", other.1.toml).as_bytes());
        let mut argv: Vec<String> = vec!["--color".into(), "Never".into(), "--config-path".into(), "elsewhere/custom.toml".into()];
        argv.extend(v.flag.clone());
        argv.push("f.lua".into());
        let desc = format!("C20 option={} carrier=flag-over---config-path value={:?} width={} target=f.lua", v.opt, v.flag, w);
        if metas.iter().any(|m| m.0 == desc) {
            continue;
        }
        metas.push((desc.clone(), *w, v.cfg, false));
        scs.push(Scenario { desc, tree: t, run: Run { argv, ..Run::default() } });
    }
    // an .editorconfig section whose glob contains a `/` (relative to the .editorconfig), the program started in a
    // sub-directory and the file named relatively, through the directory, and absolutely
    for (w, v) in &all {
        let Some((k, val)) = &v.ec else { continue };
        for (cwd, arg) in [("proj/src", "f.lua"), ("proj/src", "."), ("proj", "src/f.lua"), ("proj", "src"), ("proj/src", "$ROOT/proj/src/f.lua"), ("proj/src", "../src/f.lua")] {
            let mut t = Tree::default();
            t.add("proj/src/f.lua", probe.as_bytes());
            t.add("proj/.editorconfig", format!("root = true\n[src/**.lua]\n{} = {}\n", k, val).as_bytes());
            let desc = format!("C20 option={} carrier=.editorconfig(path-glob) value={:?} width={} cwd={} target={}", v.opt, format!("{} = {}", k, val), w, cwd, arg);
            if metas.iter().any(|m| m.0 == desc) {
                continue;
            }
            metas.push((desc.clone(), *w, v.cfg, false));
            scs.push(Scenario { desc, tree: t, run: Run { argv: vec!["--color".into(), "Never".into(), arg.into()], cwd: cwd.into(), ..Run::default() } });
        }
    }
    // `indent_size = tab` without `tab_width` says nothing by itself and must not swallow the keys behind it
    for (w, v) in &all {
        let Some((k, val)) = &v.ec else { continue };
        if k.contains("indent_size") {
            continue;
        }
        let mut t = Tree::default();
        t.add("f.lua", probe.as_bytes());
        t.add(".editorconfig", format!("root = true\n[*.lua]\nindent_size = tab\n{} = {}\n", k, val).as_bytes());
        let desc = format!("C20 option={} carrier=.editorconfig(behind indent_size=tab) value={:?} width={}", v.opt, format!("{} = {}", k, val), w);
        if metas.iter().any(|m| m.0 == desc) {
            continue;
        }
        metas.push((desc.clone(), *w, v.cfg, false));
        scs.push(Scenario { desc, tree: t, run: Run { argv: vec!["--color".into(), "Never".into(), "f.lua".into()], ..Run::default() } });
    }
    // two files of one directory in ONE invocation whose .editorconfig sections differ: each gets its own section
    for (w, v) in &all {
        let Some(other) = all.iter().find(|(w2, v2)| v2.opt == v.opt && (v2.cfg != v.cfg || w2 != w) && v2.ec.is_some()) else { continue };
        let (Some((k1, val1)), Some((k2, val2))) = (&v.ec, &other.1.ec) else { continue };
        for order in [["f.lua", "g.lua"], ["g.lua", "f.lua"]] {
            let mut t = Tree::default();
            t.add("f.lua", probe.as_bytes());
            t.add("g.lua", probe.as_bytes());
            t.add(".editorconfig", format!("root = true\n[f.lua]\n{} = {}\n[g.lua]\n{} = {}\n", k1, val1, k2, val2).as_bytes());
            let mut argv: Vec<String> = vec!["--color".into(), "Never".into()];
            argv.extend(order.iter().map(|x| x.to_string()));
            let desc = format!("C20 option={} carrier=.editorconfig-sections value={:?} width={} order={:?}", v.opt, format!("[f.lua] {} = {} [g.lua] {} = {}", k1, val1, k2, val2), w, order);
            if metas.iter().any(|m| m.0 == desc) {
                continue;
            }
            metas.push((desc.clone(), *w, v.cfg, false));
            scs.push(Scenario { desc, tree: t, run: Run { argv, ..Run::default() } });
        }
    }
    // the carrier lives in a SUB-directory (nothing at or above the working directory), next to the file; and next to a symbolic
    // link whose target lives elsewhere (the option is written where the name given on the command line lives)
    for (w, v) in &all {
        for carrier in ["stylua.toml", ".editorconfig"] {
            let text = match (carrier, &v.ec) {
                ("stylua.toml", _) => format!("{}\n", v.toml),
                (_, Some((k, val))) => format!("root = true\n[*.lua]\n{} = {}\n", k, val),
                _ => continue,
            };
            for (tname, targs, stdin) in [("sub/f.lua", vec!["sub/f.lua"], false), ("sub", vec!["sub"], false), ("stdin@sub/f.lua", vec!["--stdin-filepath", "sub/f.lua", "-"], true)] {
                let mut t = Tree::default();
                t.add("sub/f.lua", probe.as_bytes());
                t.add(&format!("sub/{}", carrier), text.as_bytes());
                let mut argv: Vec<String> = vec!["--color".into(), "Never".into()];
                argv.extend(targs.iter().map(|x| x.to_string()));
                let desc = format!("C20 option={} carrier={}(in-sub) value={:?} width={} target={}", v.opt, carrier, v.toml, w, tname);
                if metas.iter().any(|m| m.0 == desc) {
                    continue;
                }
                metas.push((desc.clone(), *w, v.cfg, false));
                scs.push(Scenario { desc, tree: t, run: Run { argv, stdin: if stdin { Some(probe.as_bytes().to_vec()) } else { None }, ..Run::default() } });
            }
            // proj/f.lua is a link to ../shared/f.lua; the carrier sits in proj/, the program runs in proj/
            let mut t = Tree::default();
            t.add("shared/f.lua", probe.as_bytes());
            t.link("proj/f.lua", "../shared/f.lua");
            t.add(&format!("proj/{}", carrier), text.as_bytes());
            let desc = format!("C20 option={} carrier={}(next-to-link) value={:?} width={} target=f.lua", v.opt, carrier, v.toml, w);
            if metas.iter().any(|m| m.0 == desc) {
                continue;
            }
            metas.push((desc.clone(), *w, v.cfg, false));
            scs.push(Scenario { desc, tree: t, run: Run { argv: vec!["--color".into(), "Never".into(), "f.lua".into()], cwd: "proj".into(), ..Run::default() } });
        }
    }
    let idx: std::collections::HashMap<String, usize> = scs.iter().enumerate().map(|(i, s)| (s.desc.clone(), i)).collect();
    let probe_s = probe.to_string();
    run_all(scs, "E2-C20", stats, |s, o| {
        let mut f = vec![];
        let (_, w, cfg, reject) = &metas[idx[&s.desc]];
        if *reject {
            if o.code != 2 {
                f.push(("malformed-config-accepted".into(), format!("exit {} for a malformed configuration file (expected 2)", o.code)));
            }
            for p in ["f.lua", "sub/g.lua", "w/f.lua", "w/sub/g.lua", "bad/a.lua", "good/b.lua"] {
                if o.after.get(p).map(|x| &x.0) != o.before.get(p).map(|x| &x.0) {
                    f.push(("malformed-config-file-modified".into(), format!("{} was modified although the configuration is malformed", p)));
                }
            }
            if !o.stdout.is_empty() {
                f.push(("malformed-config-output".into(), format!("{} bytes on stdout although the configuration is malformed", o.stdout.len())));
            }
            return f;
        }
        // the probe contains `//`, which only some dialects accept: expected = library output and exit 0, or untouched and exit 2
        let probe_s = if s.desc.ends_with("probe=tab") { tab_probe.to_string() } else { probe_s.clone() };
        let (exp, want_code) = match crate::explore::run_format(&probe_s, cfg, *w, None).0 {
            crate::explore::Out::Ok(x) => (x, 0),
            _ => (probe_s.clone(), 2),
        };
        if o.code != want_code {
            f.push(("exit-status".into(), format!("exit {} (expected {}): {}", o.code, want_code, String::from_utf8_lossy(&o.stderr).chars().take(160).collect::<String>())));
            return f;
        }
        let fpath = if s.desc.contains("carrier=.editorconfig(path-glob)") {
            "proj/src/f.lua"
        } else if s.desc.contains("(in-sub)") {
            "sub/f.lua"
        } else if s.desc.contains("(next-to-link)") {
            "shared/f.lua"
        } else {
            "f.lua"
        };
        let got = if s.run.stdin.is_some() { String::from_utf8_lossy(&o.stdout).to_string() } else { String::from_utf8_lossy(&o.after[fpath].0).to_string() };
        let exp = if s.run.stdin.is_some() && want_code == 2 { String::new() } else { exp };
        if got != exp {
            let at = got.bytes().zip(exp.bytes()).position(|(a, b)| a != b).unwrap_or(got.len().min(exp.len()));
            f.push(("carrier-differs".into(), format!("file is not the library output for the intended Config (first difference at byte {}: {:?} vs {:?})", at, got.chars().skip(at.saturating_sub(10)).take(40).collect::<String>(), exp.chars().skip(at.saturating_sub(10)).take(40).collect::<String>())));
        }
        f
    })
}
