//! F-DEEP (C07): nesting stress. Stack overflow aborts the process and cannot be caught, so every case runs in a
//! worker process (`mc deep <kind> <depth> <width> <cfgkey>`) whose exit status / signal is the observation.

use crate::cfg::Cfg;
use crate::explore::{run_format, Out};
use serde_json::json;
use std::time::{Duration, Instant};

pub const KINDS: &[&str] = &[
    "parens", "parens-ops", "tables", "calls", "callback-stmt", "callback-return", "callback-local", "if-nest", "elseif-chain", "binary-chain",
    "binary-nest", "method-chain", "index-chain", "function-nest", "concat-chain", "unary-chain", "table-function", "type-table-nest", "type-union-nest",
    "if-expression-nest", "call-args-table",
];

pub fn program(kind: &str, d: usize) -> String {
    let rep = |s: &str, n: usize| s.repeat(n);
    match kind {
        "parens" => format!("local x = {}a{}\n", rep("(", d), rep(")", d)),
        "parens-ops" => {
            let mut s = String::from("a");
            for i in 0..d {
                s = format!("({} {} b)", s, ["+", "*", "..", "and", "^"][i % 5]);
            }
            format!("local x = {}\n", s)
        }
        "tables" => format!("local x = {}1{}\n", rep("{ ", d), rep(" }", d)),
        "calls" => format!("local x = {}a{}\n", rep("f(", d), rep(")", d)),
        "callback-stmt" => format!("{}g(){}\n", rep("f(function()\n", d), rep("\nend)", d)),
        "callback-return" => format!("{}return 1{}\n", rep("return f(function()\n", d), rep("\nend)", d)),
        "callback-local" => format!("{}g(){}\n", rep("local x = f(function()\n", d), rep("\nend)", d)),
        "if-nest" => format!("{}f(){}\n", rep("if a then\n", d), rep("\nend", d)),
        "elseif-chain" => format!("if a then f()\n{}end\n", rep("elseif b then g()\n", d)),
        "binary-chain" => format!("local x = a{}\n", rep(" + bbbbbbbb", d)),
        "binary-nest" => {
            let mut s = String::from("z");
            for i in 0..d {
                s = format!("a {} ({})", ["and", "or", "+", ".."][i % 4], s);
            }
            format!("local x = {}\n", s)
        }
        "method-chain" => format!("local x = o{}\n", rep(":method(arg)", d)),
        "index-chain" => format!("local x = t{}\n", rep(".field", d)),
        "function-nest" => format!("{}return 1{}\n", rep("local function f()\n", d), rep("\nend", d)),
        "concat-chain" => format!("local x = \"a\"{}\n", rep(" .. \"bbbbbbbb\"", d)),
        "unary-chain" => format!("local x = {}a\nlocal y = {}b\n", rep("not ", d), rep("- ", d)),
        "table-function" => format!("local x = {}1{}\n", rep("{ f = function() return ", d), rep(" end }", d)),
        "type-table-nest" => format!("type T = {}number{}\n", rep("{ a: ", d), rep(" }", d)),
        "type-union-nest" => {
            let mut s = String::from("Z");
            for i in 0..d {
                s = format!("A {} ({})", ["|", "&"][i % 2], s);
            }
            format!("type T = {}\n", s)
        }
        "if-expression-nest" => format!("local x = {}0{}\n", rep("if a then 1 else (", d), rep(")", d)),
        "call-args-table" => format!("{}1{}\n", rep("f({ a = ", d), rep(" })", d)),
        _ => panic!("unknown kind"),
    }
}

/// worker: format on a 2 MiB thread (the CLI's worker threads use the default thread stack size) and print the outcome
pub fn worker(kind: &str, d: usize, width: usize, cfgkey: &str) {
    let text = program(kind, d);
    let cfg = Cfg::from_key(cfgkey).expect("cfg key");
    let h = std::thread::Builder::new()
        .stack_size(2 * 1024 * 1024)
        .spawn(move || {
            let t0 = Instant::now();
            let (o, _) = run_format(&text, &cfg, width, None);
            let ms = t0.elapsed().as_secs_f64() * 1000.0;
            let (oc, parses) = match o {
                Out::Ok(s) => {
                    // the output of a valid program must parse again (cheap sanity; C01 owns it)
                    let p = crate::explore::analyse(&s, cfg.syn, false).parses;
                    ("ok", p)
                }
                Out::ParseErr => ("parse-error", false),
                Out::OtherErr(_) => ("other-error", false),
                Out::Panic(_) => ("panic", false),
            };
            println!("{}", json!({"outcome": oc, "ms": ms, "bytes": text.len(), "output_parses": parses}));
        })
        .unwrap();
    let _ = h.join();
}

pub struct DeepResult {
    pub kind: String,
    pub depth: usize,
    pub width: usize,
    pub cfg: Cfg,
    pub outcome: String,
    pub ms: f64,
    pub bytes: usize,
}

pub fn run_one(kind: &str, d: usize, width: usize, cfg: &Cfg, timeout: Duration) -> DeepResult {
    let exe = std::env::current_exe().unwrap();
    let mut child = std::process::Command::new(exe)
        .args(["deep", kind, &d.to_string(), &width.to_string(), &cfg.key()])
        .stdout(std::process::Stdio::piped())
        .stderr(std::process::Stdio::null())
        .spawn()
        .expect("spawn worker");
    let t0 = Instant::now();
    let mut res = DeepResult { kind: kind.to_string(), depth: d, width, cfg: *cfg, outcome: String::new(), ms: 0.0, bytes: program(kind, d).len() };
    loop {
        match child.try_wait() {
            Ok(Some(status)) => {
                use std::io::Read;
                let mut s = String::new();
                let _ = child.stdout.take().unwrap().read_to_string(&mut s);
                if let Ok(v) = serde_json::from_str::<serde_json::Value>(s.trim()) {
                    res.outcome = v["outcome"].as_str().unwrap_or("?").to_string();
                    res.ms = v["ms"].as_f64().unwrap_or(0.0);
                } else {
                    use std::os::unix::process::ExitStatusExt;
                    res.outcome = match status.signal() {
                        Some(sig) => format!("killed-by-signal-{} (stack overflow / abort)", sig),
                        None => format!("worker-exit-{}", status.code().unwrap_or(-1)),
                    };
                    res.ms = t0.elapsed().as_secs_f64() * 1000.0;
                }
                return res;
            }
            Ok(None) => {
                if t0.elapsed() > timeout {
                    let _ = child.kill();
                    let _ = child.wait();
                    res.outcome = format!("timeout-{}s", timeout.as_secs());
                    res.ms = t0.elapsed().as_secs_f64() * 1000.0;
                    return res;
                }
                std::thread::sleep(Duration::from_millis(5));
            }
            Err(_) => {
                res.outcome = "wait-error".into();
                return res;
            }
        }
    }
}
