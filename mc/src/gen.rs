//! Program families (section 2 of DESIGN.md). Every family is a finite product enumerated completely by
//! nested loops; nothing is random.

use crate::lex;

#[derive(Clone, Copy, Debug, PartialEq, Eq, PartialOrd, Ord, Hash)]
pub enum Dial {
    Core,
    L52,
    L53,
    L54,
    Jit,
    Luau,
}

#[derive(Clone, Debug, Default)]
pub struct Meta {
    /// fully parenthesised rendering of the same program (O-TREE), from the generator's own precedence parser
    pub full: Option<String>,
    /// byte spans that must be reproduced verbatim (C08)
    pub ignored: Vec<(usize, usize)>,
    /// the same program with every directive defused (C08 differential oracle)
    pub defused: Option<String>,
    /// number of comments the generator put in (vacuity accounting)
    pub comments: usize,
    /// the statements that are NOT ignored, as standalone texts (C08: "everything else is still formatted")
    pub others: Vec<String>,
    /// F-REQ: what the generator knows about each top-level statement (C12 reference model)
    pub req: Vec<ReqItem>,
}

#[derive(Clone, Debug)]
pub struct Case {
    pub text: String,
    pub fam: &'static str,
    pub dial: Dial,
    pub meta: Meta,
}

pub fn case(fam: &'static str, dial: Dial, text: impl Into<String>) -> Case {
    Case { text: text.into(), fam, dial, meta: Meta::default() }
}

pub const L: &str = "aaaaaaaaaaaaaaaaaaaa";

// ------------------------------------------------------------------------------------------------------------
// F-STMT: the statement catalogue
// ------------------------------------------------------------------------------------------------------------

pub const STMT_CORE: &[&str] = &[
    "local a",
    "local a = 1",
    "local a, b = 1, 2",
    "local a, b = f()",
    "a = 1",
    "a, b = b, a",
    "a.b = 1",
    "a.b.c = f()",
    "a[1] = 2",
    "a[\"k\"] = v",
    "a[ [[k]] ] = v",
    "f()",
    "f(a)",
    "f(a, b)",
    "o:m()",
    "o:m(a)",
    "o.p:m(a, b)",
    "f\"s\"",
    "f's'",
    "f{}",
    "f{a=1}",
    "f[[s]]",
    "o:m\"s\"",
    "o:m{1}",
    "f()()",
    "f(a)(b)",
    "f().x = 1",
    "(f)()",
    "(f or g)()",
    "(a).b = 1",
    "(\"s\"):rep(2)",
    "do end",
    "do local a = 1 end",
    "while a do end",
    "while a do f() end",
    "repeat until a",
    "repeat f() until a",
    "repeat local x = f() until x",
    "if a then end",
    "if a then f() end",
    "if a then f() else g() end",
    "if a then f() elseif b then g() end",
    "if a then f() elseif b then g() else h() end",
    "if a then return end",
    "if a then return a end",
    "if a then\n\treturn a\nend",
    "while a do if b then break end end",
    "for i = 1, 2 do end",
    "for i = 1, 2, 3 do f(i) end",
    "for k in pairs(t) do end",
    "for k, v in pairs(t) do f(k, v) end",
    "for k, v in next, t, nil do end",
    "function f() end",
    "function f(a) end",
    "function f(a, b) return a end",
    "function f(...) end",
    "function f(a, ...) return ... end",
    "function o.f() end",
    "function o.p.f(a) end",
    "function o:m() end",
    "function o.p:m(a) return self end",
    "function f()\n\treturn 1\nend",
    "local function f() end",
    "local function f(a, b) return a + b end",
    "local f = function() end",
    "local f = function(a) return a end",
    "return",
    "return a",
    "return a, b",
    "return f()",
    "return (f())",
    "return function() end",
    "return { a = 1 }",
    "local t = {}",
    "local t = { 1, 2, 3 }",
    "local t = { a = 1, b = 2 }",
    "local t = { [1] = a, [\"k\"] = b, [k] = c }",
    "local t = { a; b; c }",
    "local t = { a, b, }",
    "local t = { f(), (f()) }",
    "local t = { ... }",
    "local t = { (...) }",
    "local t = { { 1 }, { 2 } }",
    "local t = {\n\ta = 1,\n}",
    "local t = {\n\t1, 2,\n\t3\n}",
    "local t = { [ [[k]] ] = 1 }",
    "local t = { f = function() end }",
    "local s = \"a\" .. \"b\" .. c",
    "local x = a and b or c",
    "local x = not a",
    "local x = -a",
    "local x = #t",
    "local x = - -a",
    "local x = -(-a)",
    "local x = not not a",
    "local x = a + b * c - d / e % f ^ g",
    "local x = (a + b) * c",
    "local x = a == b",
    "x = a < b and c > d or e <= f and g >= h or i ~= j",
    "local x = f(a)(b).c[d]:e()",
    "local x = a.b.c.d",
    "local x = t[1][2]",
    "local x = ...",
    "local x = function(...) return ... end",
    "local x = (...)",
    "local x = (f())",
    "local x, y = (f())",
    "f((g()))",
    "f(a, (g()))",
    "f((...))",
    "f(function() end)",
    "f(function() return 1 end, a)",
    "f(a, function() end)",
    "f(function()\n\treturn 1\nend)",
    "f({ a = 1 })",
    "f({})",
    "f(\"s\")",
    "f('s')",
    "f([[s]])",
    "f((\"s\"))",
    "f(({}))",
    "f(\"s\").x = 1",
    "f(\"s\"):m()",
    "f({})[1] = 2",
    "f(a)(b)(c)",
    "f(a):g(b):h(c)",
    "a.b.c:d(e).f:g()",
    "local x = \"s\"",
    "local x = 's'",
    "local x = \"it's\"",
    "local x = 'say \"hi\"'",
    "local x = [[s]]",
    "local x = [==[s]==]",
    "local x = 1",
    "local x = 0xff",
    "local x = 1.5e3",
    "local x = .5",
    "local x = nil",
    "local x = true",
    "x = x or {}",
    "x = x and x.y",
    "if a and b then end",
    "if (a) then end",
    "if (a and b) then end",
    "if (a) and (b) then end",
    "while (a) do end",
    "repeat until (a)",
    "if a then elseif (b) then end",
    "local x = (a)",
    "local x = ((a))",
    "local x = (a).b",
    "local x = (a)[1]",
    "local x = (a)()",
    "local x = (a):m()",
    "local x = ({}).y",
    "local x = (\"s\"):len()",
    "local x = (function() end)()",
    "x = a .. b .. c",
    "x = a ^ b ^ c",
    "x = (a ^ b) ^ c",
    "x = (a .. b) .. c",
    "x = a - (b - c)",
    "x = a - (b + c)",
    "x = -(a + b)",
    "x = -a ^ b",
    "x = (-a) ^ b",
    "x = not (a == b)",
    "x = (not a) == b",
    "x = #(a .. b)",
    "x = (f()) + 1",
    "x = { (f()) }",
    "x = { (f()), 1 }",
    "x = { k = (f()) }",
    "for i = (a), (b) do end",
    "for k in (f()) do end",
    "return (...)",
    "return a, (f())",
    "return (a)",
    "return ((f()))",
    // shapes found uncovered by the coverage audit
    "for k, v in pairs({ a = 1, b = 2 }) do end",
    "for k in ipairs{ 1, 2 } do f(k) end",
    "for k, v in pairs({\n\ta = 1,\n}) do end",
    "if a then\n\tf()\n\t-- c\nend",
    "if a then\n\tf()\n\t\t-- c\nelse\n\tg()\n\t-- d\nend",
    "repeat\n\tf()\n\t-- c\nuntil a",
    "while a do\n\tf()\n    -- c\nend",
    "function f()\n\treturn 1\n\t-- c\nend",
    "local t = {\n\t1,\n\t-- c\n}",
    "x = t[function() return 1 end]",
    "while (a) and (b) do end",
    "while a   and   b do f() end",
    "repeat f() until (a) and (b)",
    "if (a) and (b) then f() end",
    "if a   ==   b then f() end",
    "for i = (a) + (b), (c) do end",
    "for k, v in (pairs)((t)) do end",
    "if a then\n\tf()\n-- c\nelse\n\tg()\nend",
    "if a then\n\tf()\n-- c\nelseif b then\n\tg()\n-- d\nend",
    "while a do\n\tf()\n-- c\nend",
    "x = t[([[x]])]",
    "y = { [([[k]])] = 1 }",
    "x = t[ [=[x]=] ]",
    "y = { [ [==[k]==] ] = 1 }",
    "x = t[ [[a]] .. b ]",
    "x = a.b[c].d[e]",
    // multi-line tokens (line-ending conversion inside long strings and block comments)
    "local x = [[a\nb]]",
    "local x = [==[\na\n\nb]==]",
    "local x = [[a\r\nb]]",
    "f([[a\nb]])",
    "f[[a\nb]]",
    "--[[c\nd]]\nlocal x = 1",
    "--[==[c\r\nd]==]\nlocal x = 1",
    "local x = 1 --[[c\nd]]",
    "local x = \"a\\\nb\"",
    "#!/usr/bin/lua\nlocal x = 1",
    "-- c\r\nlocal x = 1\r\n",
    "local t = {\r\n\ta = 1,\r\n}",
    // statements that carry their own semicolon
    "local a = 1;",
    "a = 1;",
    "f();",
    "return;",
    "return a;",
    "return a, b;",
    "do return a; end",
    "while a do break; end",
    "do f(); g(); end",
    "local a = f(); (g)()",
    "a = b; (g)()",
    "repeat until a; (g)()",
    "do end;",
    "if a then f(); end",
    "function f() return a; end",
    // blank lines at the start / end of a nested block (removed by the block post-processing)
    "do\n\n\tlocal x = 1\nend",
    "function f()\n\n\treturn 1\nend",
    "if a then\n\n\tf()\n\nelse\n\n\tg()\n\nend",
    "while a do\n\n\n\tbreak\nend",
    // conditions / headers that contain containers (tables, functions) — a header that hangs re-formats them
    "while f({ a = 1 }) and g do\n\tx()\nend",
    "while a == { 1, 2 } or b do x() end",
    "while f(function() return 1 end) do x() end",
    "if f({ a = 1 }) and g then x() end",
    "if a then x() elseif f({ 1 }) or g then y() end",
    "repeat x() until f({ a = 1 }) or h",
    "for i = f({ 1 }), g(function() return 2 end) do x() end",
    "for k, v in pairs({ a = 1 }), g do x() end",
    "return f({ a = 1 }) and g, function() return 2 end",
];

pub const STMT_L52: &[&str] = &["goto l", "::l::", "local f = function() goto l end", "if a then goto l end", "function f() goto l end", "while a do goto l end", "do goto l ::l:: end", "local s = \"a\\z\n   b\"", "local s = \"\\x41\""];
pub const STMT_L53: &[&str] = &[
    "local x = a // b",
    "local x = a & b | c ~ d",
    "local x = ~a",
    "local x = a << b >> c",
    "local x = ~ ~a",
    "local x = \"\\u{48}\"",
    "local x = a ~ ~b",
    "x = (a & b) == c",
    "x = a & (b == c)",
];
pub const STMT_L54: &[&str] = &[
    "local name, handle <close> = \"log\", open(\"log\")",
    "local a, b <const>, c = 1, 2, 3",
    "local x <const> = 1",
    "local x <close> = f()",
    "local a <const>, b <close> = 1, 2",
    "local a<const>, b = 1, 2",
];
pub const STMT_JIT: &[&str] = &["local x = 1LL", "local x = 1ULL", "local x = 2i", "local x = 0x10LL", "goto l", "::l::"];
pub const STMT_LUAU: &[&str] = &[
    // a local whose annotated name is not the first one
    "local ok, err: string? = pcall(callback)",
    "local a, b: number, c = 1, 2, 3",
    // string singleton types written with long brackets (also as indexer of a table type)
    "type T = { [ [[x]] ]: number }",
    "type T = { [ [=[x]=] ]: number, [string]: any }",
    "local x: [[a]] = [[a]]",
    "local x: number = 1",
    "local x: T?, y: U = a, b",
    "x += 1",
    "x -= 1",
    "x *= 2",
    "x /= 2",
    "x //= 2",
    "x %= 2",
    "x ^= 2",
    "x ..= \"s\"",
    "(a).b += 1",
    "a.b.c ..= f()",
    "while a do continue end",
    "while a do if b then continue end end",
    "while a do continue; end",
    "x += 1; (g)()",
    "x += y; (g)()",
    "x ..= y; (a).b = 1",
    "local t: T = v; (g)()",
    "local x = if a then b else c",
    "local x = if a then b elseif c then d else e",
    "local x = (if a then b else c) + 1",
    "local x = if a then b else c + 1",
    "local x = `s{a}t`",
    "local x = `s`",
    "local x = `{a}{b}`",
    "local x = `a{ {1} }b`",
    "f(`s`)",
    "f`s`",
    "type T = number",
    "type T<U> = { U }",
    "export type T = { a: number, b: string? }",
    "type F = (a: number, b: string) -> boolean",
    "type F = () -> ()",
    "type F = (number) -> (string, number)",
    "type U = A | B",
    "type U = | A | B",
    "type I = A & B",
    "type O = A?",
    "type O = (A | B)?",
    "type O = (A)?",
    "type O = ((A))",
    "type O = (A | B) & C",
    "type O = (() -> ())?",
    "type O = () -> ()?",
    "type O = { (A) }",
    "type G<T = number> = T",
    "type V<T...> = (T...) -> ()",
    "type S = \"a\" | \"b\"",
    "type B = true | false | nil",
    "local x = y :: T",
    "local x = (y :: any) :: T",
    "local x = (y :: T) + 1",
    "local x = ((y :: T)) + 1",
    "local x = -(y :: T)",
    "local x = (y :: T).z",
    "local x = y :: T | U",
    "local x = (y + 1) :: T",
    "f(y :: T)",
    "function f(a: number, b: string): boolean end",
    "function f<T>(a: T): T return a end",
    "function f(...: number) end",
    "function f(): (number, string) end",
    "function f(): (number) end",
    "function f(): ...number end",
    "local function f(a: { number }): { [string]: number } end",
    "local x = function(a: T): U end",
    "for i: number = 1, 2 do end",
    "for k: string, v: number in pairs(t) do end",
    "type T = typeof(x)",
    "type T = typeof(x + 1)",
    "type T = module.Type",
    "type T = module.Type<number>",
    "type T = { [string]: number }",
    "type T = { a: number, [number]: string }",
    "type T = { a: number; b: string }",
    "type T = {\n\ta: number,\n}",
    "type T = Foo<Bar<T>>",
    "type T = Foo<(A, B)>",
    "type T = Foo<A...>",
    "type T = {}",
    "type T = { }?",
    "type T = { a: {} }",
    "type F = <T>(a: T) -> T",
    "type F = <T...>(T...) -> T...",
    "type F = (...number) -> ()",
    "type F = (...T) -> ...T",
    "type I = & A & B",
    "type I = A & (B | C)",
    "type U = (A & B)?",
    "type U = (A | B)...",
    "type T = { [(A | B)]: C }",
    "type T = { [string]: (A | B)? }",
    "type T = Foo<(A | B)>",
    "type T = { read a: number, write b: string }",
    "type T = { [\"k\"]: number }",
    "type T = { a: \"x\" | \"y\" }",
    "type T = (A?)?",
    "type T = ((A) -> B)?",
    "type T = (A) -> (B) -> C",
    "type T = typeof(f())?",
    "type function f() end",
    "export type function f(a) return a end",
    "local x = a // b",
    "local x = 0b101",
    "local x = 1_000",
    "local x = 0xFF_FF",
    "if a then end :: any",
    "local t = { a = 1 } :: T",
    "return x :: T",
    "return (x :: T)",
    "return (f()) :: T",
    "local x = f() :: T, y",
    "local x = \"\\z\n  a\"",
    "local x = \"\\u{1F600}\"",
    "@native function f() end",
    "@native local function f() end",
];

pub fn f_stmt() -> Vec<Case> {
    let mut v = Vec::new();
    for s in STMT_CORE {
        v.push(case("F-STMT", Dial::Core, format!("{}\n", s)));
    }
    for s in STMT_L52 {
        v.push(case("F-STMT", Dial::L52, format!("{}\n", s)));
    }
    for s in STMT_L53 {
        v.push(case("F-STMT", Dial::L53, format!("{}\n", s)));
    }
    for s in STMT_L54 {
        v.push(case("F-STMT", Dial::L54, format!("{}\n", s)));
    }
    for s in STMT_JIT {
        v.push(case("F-STMT", Dial::Jit, format!("{}\n", s)));
    }
    for s in STMT_LUAU {
        v.push(case("F-STMT", Dial::Luau, format!("{}\n", s)));
    }
    v
}

/// The same catalogue with long names: every identifier `a` / `b` / `f` ... becomes 20 characters long so that
/// each construct also exists in a "must wrap" size.
pub fn f_stmt_long() -> Vec<Case> {
    f_stmt()
        .into_iter()
        .filter_map(|c| {
            let l = lex::lex(&c.text).ok()?;
            let mut out = String::new();
            let mut last = 0;
            let mut changed = false;
            for (t, s, e) in &l.toks {
                out.push_str(&c.text[last..*s]);
                match t {
                    lex::Tok::Word(w) if w.len() == 1 && w.chars().all(|ch| ch.is_ascii_lowercase()) => {
                        for _ in 0..12 {
                            out.push_str(w);
                        }
                        changed = true;
                    }
                    _ => out.push_str(&c.text[*s..*e]),
                }
                last = *e;
            }
            out.push_str(&c.text[last..]);
            if changed {
                Some(Case { text: out, fam: "F-STMT-L", dial: c.dial, meta: Meta::default() })
            } else {
                None
            }
        })
        .collect()
}

// ------------------------------------------------------------------------------------------------------------
// F-EXPR: expression trees with the generator's own precedence parser (O-TREE)
// ------------------------------------------------------------------------------------------------------------

pub const BINOPS_CORE: &[&str] = &["^", "*", "/", "%", "+", "-", "..", "<", ">", "<=", ">=", "~=", "==", "and", "or"];
pub const BINOPS_53: &[&str] = &["//", "<<", ">>", "&", "~", "|"];
pub const UNOPS_CORE: &[&str] = &["-", "not", "#"];
pub const UNOPS_53: &[&str] = &["~"];

/// (left binding power, right binding power) from the Lua reference manual, higher binds tighter
fn bin_prec(op: &str) -> (u8, u8) {
    match op {
        "or" => (1, 1),
        "and" => (2, 2),
        "<" | ">" | "<=" | ">=" | "~=" | "==" => (3, 3),
        "|" => (4, 4),
        "~" => (5, 5),
        "&" => (6, 6),
        "<<" | ">>" => (7, 7),
        ".." => (9, 8),
        "+" | "-" => (10, 10),
        "*" | "/" | "//" | "%" => (11, 11),
        "^" => (14, 13),
        _ => panic!("unknown op {}", op),
    }
}
const UNARY_PREC: u8 = 12;

#[derive(Clone, Debug)]
pub enum T {
    Atom(String),
    Op(String),
    Open,
    Close,
}

#[derive(Clone, Debug)]
enum E {
    Atom(String),
    Bin(Box<E>, String, Box<E>),
    Un(String, Box<E>),
    Paren(Box<E>),
}

struct P<'a> {
    t: &'a [T],
    i: usize,
}
impl<'a> P<'a> {
    fn simple(&mut self) -> E {
        match &self.t[self.i] {
            T::Atom(a) => {
                self.i += 1;
                E::Atom(a.clone())
            }
            T::Open => {
                self.i += 1;
                let e = self.sub(0);
                assert!(matches!(self.t[self.i], T::Close));
                self.i += 1;
                E::Paren(Box::new(e))
            }
            x => panic!("generator grammar: unexpected {:?}", x),
        }
    }
    fn sub(&mut self, limit: u8) -> E {
        let mut lhs = match &self.t[self.i] {
            T::Op(o) if self.is_unary_pos() => {
                let o = o.clone();
                self.i += 1;
                let e = self.sub(UNARY_PREC);
                E::Un(o, Box::new(e))
            }
            _ => self.simple(),
        };
        while self.i < self.t.len() {
            let op = match &self.t[self.i] {
                T::Op(o) => o.clone(),
                _ => break,
            };
            let (l, r) = bin_prec(&op);
            if l <= limit {
                break;
            }
            self.i += 1;
            let rhs = self.sub(r);
            lhs = E::Bin(Box::new(lhs), op, Box::new(rhs));
        }
        lhs
    }
    fn is_unary_pos(&self) -> bool {
        true
    }
}

fn is_multi_atom(a: &str) -> bool {
    a == "..." || a.ends_with("()") || a.ends_with(')') && !a.starts_with('(')
}

fn full(e: &E) -> String {
    match e {
        E::Atom(a) => a.clone(),
        E::Bin(l, o, r) => format!("({} {} {})", full(l), o, full(r)),
        E::Un(o, x) => format!("({} {})", o, full(x)),
        E::Paren(x) => match strip(x) {
            E::Atom(a) if is_multi_atom(a) => format!("({})", a),
            _ => full(x),
        },
    }
}
fn strip(e: &E) -> &E {
    match e {
        E::Paren(x) => strip(x),
        _ => e,
    }
}

pub fn render(t: &[T]) -> String {
    let mut s = String::new();
    let mut prev_open = true;
    for x in t {
        match x {
            T::Atom(a) => {
                if !prev_open {
                    s.push(' ')
                }
                s.push_str(a);
                prev_open = false;
            }
            T::Op(o) => {
                if !prev_open {
                    s.push(' ')
                }
                s.push_str(o);
                prev_open = false;
            }
            T::Open => {
                if !prev_open {
                    s.push(' ')
                }
                s.push('(');
                prev_open = true;
            }
            T::Close => {
                s.push(')');
                prev_open = false;
            }
        }
    }
    s
}

pub fn full_of(t: &[T]) -> String {
    let mut p = P { t, i: 0 };
    let e = p.sub(0);
    assert_eq!(p.i, t.len(), "generator grammar: trailing tokens in {:?}", t);
    full(&e)
}

fn at(s: &str) -> T {
    T::Atom(s.to_string())
}
fn op(s: &str) -> T {
    T::Op(s.to_string())
}
fn wrap(mut inner: Vec<T>, level: usize) -> Vec<T> {
    for _ in 0..level {
        inner.insert(0, T::Open);
        inner.push(T::Close);
    }
    inner
}

pub struct ExprSpec {
    pub toks: Vec<T>,
    pub dial: Dial,
}

fn op_dial(o: &str, unary: bool) -> Dial {
    if unary {
        if o == "~" {
            Dial::L53
        } else {
            Dial::Core
        }
    } else if BINOPS_53.contains(&o) {
        Dial::L53
    } else {
        Dial::Core
    }
}

/// depth-2 expressions: every ordered operator pair x parenthesis level x both positions
pub fn exprs_depth2(names: [&str; 3], thorough: bool) -> Vec<ExprSpec> {
    let mut v = Vec::new();
    let bins: Vec<&str> = BINOPS_CORE.iter().chain(BINOPS_53.iter()).cloned().collect();
    let uns: Vec<&str> = UNOPS_CORE.iter().chain(UNOPS_53.iter()).cloned().collect();
    let [a, b, c] = names;
    for o1 in &bins {
        for o2 in &bins {
            let d = op_dial(o1, false).max(op_dial(o2, false));
            for lvl in 0..=2 {
                // A o1 (B o2 C)
                let mut t = vec![at(a), op(o1)];
                t.extend(wrap(vec![at(b), op(o2), at(c)], lvl));
                v.push(ExprSpec { toks: t, dial: d });
                // (A o2 B) o1 C
                if lvl > 0 {
                    let mut t = wrap(vec![at(a), op(o2), at(b)], lvl);
                    t.extend(vec![op(o1), at(c)]);
                    v.push(ExprSpec { toks: t, dial: d });
                }
            }
        }
    }
    for u in &uns {
        for o in &bins {
            let d = op_dial(u, true).max(op_dial(o, false));
            for lvl in 0..=2 {
                // u (B o C)  /  u B o C
                let mut t = vec![op(u)];
                t.extend(wrap(vec![at(a), op(o), at(b)], lvl));
                v.push(ExprSpec { toks: t, dial: d });
                // (u A) o B
                if lvl > 0 {
                    let mut t = wrap(vec![op(u), at(a)], lvl);
                    t.extend(vec![op(o), at(b)]);
                    v.push(ExprSpec { toks: t, dial: d });
                }
                // A o (u B)
                let mut t = vec![at(a), op(o)];
                t.extend(wrap(vec![op(u), at(b)], lvl));
                v.push(ExprSpec { toks: t, dial: d });
            }
        }
    }
    for u1 in &uns {
        for u2 in &uns {
            let d = op_dial(u1, true).max(op_dial(u2, true));
            for lvl in 0..=2 {
                let mut t = vec![op(u1)];
                t.extend(wrap(vec![op(u2), at(a)], lvl));
                v.push(ExprSpec { toks: t, dial: d });
            }
            if thorough {
                // u1 (u2 A) o B with every operator
                for o in &bins {
                    let d = d.max(op_dial(o, false));
                    let mut t = vec![op(u1)];
                    t.extend(wrap(vec![op(u2), at(a)], 1));
                    t.extend(vec![op(o), at(b)]);
                    v.push(ExprSpec { toks: t, dial: d });
                }
            }
        }
    }
    v
}

/// one representative operator per precedence class, used for depth 3
pub const CLASS_REPS: &[&str] = &["or", "and", "==", "<", "|", "~", "&", "<<", "..", "+", "*", "^"];
pub const UN_REPS: &[&str] = &["-", "not"];

pub fn exprs_depth3(names: [&str; 4]) -> Vec<ExprSpec> {
    let mut v = Vec::new();
    let [a, b, c, d4] = names;
    for o1 in CLASS_REPS {
        for o2 in CLASS_REPS {
            for o3 in CLASS_REPS {
                let d = op_dial(o1, false).max(op_dial(o2, false)).max(op_dial(o3, false));
                // shapes: ((A o1 B) o2 C) o3 D ; A o1 (B o2 (C o3 D)) ; (A o1 B) o2 (C o3 D) ; A o1 ((B o2 C) o3 D) ; (A o1 (B o2 C)) o3 D
                // each with parentheses present (1) or absent (0) on the groups
                for mask in 0..4u8 {
                    let p1 = (mask & 1) as usize;
                    let p2 = ((mask >> 1) & 1) as usize;
                    // shape 1
                    let inner = wrap(vec![at(a), op(o1), at(b)], p1);
                    let mut mid = inner;
                    mid.extend(vec![op(o2), at(c)]);
                    let mut t = wrap(mid, p2);
                    t.extend(vec![op(o3), at(d4)]);
                    v.push(ExprSpec { toks: t, dial: d });
                    // shape 2
                    let inner = wrap(vec![at(c), op(o3), at(d4)], p1);
                    let mut mid = vec![at(b), op(o2)];
                    mid.extend(inner);
                    let mut t = vec![at(a), op(o1)];
                    t.extend(wrap(mid, p2));
                    v.push(ExprSpec { toks: t, dial: d });
                    // shape 3
                    let mut t = wrap(vec![at(a), op(o1), at(b)], p1);
                    t.push(op(o2));
                    t.extend(wrap(vec![at(c), op(o3), at(d4)], p2));
                    v.push(ExprSpec { toks: t, dial: d });
                }
            }
        }
    }
    // unary in the middle of two binaries
    for u in UN_REPS {
        for o1 in CLASS_REPS {
            for o2 in CLASS_REPS {
                let d = op_dial(o1, false).max(op_dial(o2, false));
                for lvl in 0..=1 {
                    // A o1 (u B) o2 C ; (u A o1 B) o2 C ; A o1 u (B o2 C)
                    let mut t = vec![at(a), op(o1)];
                    t.extend(wrap(vec![op(u), at(b)], lvl));
                    t.extend(vec![op(o2), at(c)]);
                    v.push(ExprSpec { toks: t, dial: d });
                    let mut t = wrap(vec![op(u), at(a), op(o1), at(b)], lvl);
                    t.extend(vec![op(o2), at(c)]);
                    v.push(ExprSpec { toks: t, dial: d });
                    let mut t = vec![at(a), op(o1), op(u)];
                    t.extend(wrap(vec![at(b), op(o2), at(c)], lvl));
                    v.push(ExprSpec { toks: t, dial: d });
                }
            }
        }
    }
    v
}

/// operand deviations: one non-name atom at a time
pub const ATOM_DEVS_CORE: &[&str] = &["1", "\"s\"", "f()", "...", "{}", "function() end", "o:m()", "t.k", "t[1]", "nil"];
pub const ATOM_DEVS_LUAU: &[&str] = &["(x :: T)", "(if p then q else r)", "`s`"];

pub struct Ctx {
    pub name: &'static str,
    pub pre: &'static str,
    pub post: &'static str,
    pub dial: Dial,
    /// a second hole (e.g. numeric for): filled with the same expression
    pub twice: bool,
}

pub const CTXS_QUICK: &[Ctx] = &[
    Ctx { name: "local", pre: "local x = ", post: "\n", dial: Dial::Core, twice: false },
    Ctx { name: "arg", pre: "f(", post: ")\n", dial: Dial::Core, twice: false },
    Ctx { name: "return", pre: "return ", post: "\n", dial: Dial::Core, twice: false },
    Ctx { name: "if", pre: "if ", post: " then end\n", dial: Dial::Core, twice: false },
    Ctx { name: "field", pre: "t = { ", post: " }\n", dial: Dial::Core, twice: false },
    Ctx { name: "prefix", pre: "x = (", post: ").k\n", dial: Dial::Core, twice: false },
];
pub const CTXS_MORE: &[Ctx] = &[
    Ctx { name: "assign", pre: "x = ", post: "\n", dial: Dial::Core, twice: false },
    Ctx { name: "assign2", pre: "x, y = a, ", post: "\n", dial: Dial::Core, twice: false },
    Ctx { name: "return2", pre: "return a, ", post: "\n", dial: Dial::Core, twice: false },
    Ctx { name: "while", pre: "while ", post: " do end\n", dial: Dial::Core, twice: false },
    Ctx { name: "until", pre: "repeat until ", post: "\n", dial: Dial::Core, twice: false },
    Ctx { name: "elseif", pre: "if a then elseif ", post: " then end\n", dial: Dial::Core, twice: false },
    Ctx { name: "ifparen", pre: "if (", post: ") then end\n", dial: Dial::Core, twice: false },
    Ctx { name: "arg-last", pre: "f(a, ", post: ")\n", dial: Dial::Core, twice: false },
    Ctx { name: "arg-first", pre: "f(", post: ", a)\n", dial: Dial::Core, twice: false },
    Ctx { name: "method", pre: "o:m(", post: ")\n", dial: Dial::Core, twice: false },
    Ctx { name: "keyed", pre: "t = { k = ", post: " }\n", dial: Dial::Core, twice: false },
    Ctx { name: "exprkey", pre: "t = { [", post: "] = 1 }\n", dial: Dial::Core, twice: false },
    Ctx { name: "index", pre: "x = t[", post: "]\n", dial: Dial::Core, twice: false },
    Ctx { name: "callprefix", pre: "(", post: ")()\n", dial: Dial::Core, twice: false },
    Ctx { name: "methodprefix", pre: "(", post: "):m()\n", dial: Dial::Core, twice: false },
    Ctx { name: "numfor", pre: "for i = ", post: " do end\n", dial: Dial::Core, twice: true },
    Ctx { name: "genfor", pre: "for k in ", post: " do end\n", dial: Dial::Core, twice: false },
    Ctx { name: "compound", pre: "x += ", post: "\n", dial: Dial::Luau, twice: false },
    Ctx { name: "cast", pre: "x = (", post: ") :: T\n", dial: Dial::Luau, twice: false },
    Ctx { name: "interp", pre: "x = `a{", post: "}b`\n", dial: Dial::Luau, twice: false },
    Ctx { name: "ifexpr", pre: "x = if ", post: " then 1 else 2\n", dial: Dial::Luau, twice: false },
    Ctx { name: "ifexpr-else", pre: "x = if c then 1 else ", post: "\n", dial: Dial::Luau, twice: false },
    Ctx { name: "nested-fn", pre: "f(function()\n\treturn ", post: "\nend)\n", dial: Dial::Core, twice: false },
];

pub fn place(ctx: &Ctx, e: &str) -> String {
    if ctx.twice {
        format!("{}{}, {}{}", ctx.pre, e, e, ctx.post)
    } else {
        format!("{}{}{}", ctx.pre, e, ctx.post)
    }
}

/// `(u A) o1 B o2 C o2 D`: a parenthesised unary on the far left of a chain that hangs while its head stays inline
pub fn exprs_unary_chain(names: [&str; 4], thorough: bool) -> Vec<ExprSpec> {
    let mut v = Vec::new();
    let bins: Vec<&str> = BINOPS_CORE.iter().chain(BINOPS_53.iter()).cloned().collect();
    let uns: Vec<&str> = UNOPS_CORE.iter().chain(UNOPS_53.iter()).cloned().collect();
    let tails: &[&str] = if thorough { CLASS_REPS } else { &["+", "..", "and", "=="] };
    let [a, b, c, d4] = names;
    for u in &uns {
        for o1 in &bins {
            for o2 in tails {
                let d = op_dial(u, true).max(op_dial(o1, false)).max(op_dial(o2, false));
                for lvl in 1..=2 {
                    let mut t = wrap(vec![op(u), at(a)], lvl);
                    t.extend(vec![op(o1), at(b), op(o2), at(c), op(o2), at(d4)]);
                    v.push(ExprSpec { toks: t, dial: d });
                }
                if thorough {
                    // the same with the binary pair parenthesised: ((u A) o1 B) o2 C o2 D
                    let mut t = wrap(vec![op(u), at(a)], 1);
                    t.extend(vec![op(o1), at(b)]);
                    let mut t = wrap(t, 1);
                    t.extend(vec![op(o2), at(c), op(o2), at(d4)]);
                    v.push(ExprSpec { toks: t, dial: d });
                }
            }
        }
    }
    v
}

pub fn f_expr(thorough: bool) -> Vec<Case> {
    let mut v = Vec::new();
    // (spec, number of contexts from the front of the context list; 0 = all)
    let mut specs: Vec<(ExprSpec, usize)> = Vec::new();
    let lb = "bbbbbbbbbbbbbbbbbbbb";
    let lc = "cccccccccccccccccccc";
    for s in exprs_depth2(["a", "b", "c"], thorough) {
        specs.push((s, 0));
    }
    for s in exprs_depth2([L, lb, lc], thorough) {
        specs.push((s, if thorough { 0 } else { 2 }));
    }
    for s in exprs_unary_chain(["aaa", "bbb", "cccccc", "dddddd"], thorough) {
        specs.push((s, if thorough { 6 } else { 2 }));
    }
    // operand deviations on a reduced operator set
    let devs: Vec<(&str, Dial)> = ATOM_DEVS_CORE
        .iter()
        .map(|a| (*a, Dial::Core))
        .chain(ATOM_DEVS_LUAU.iter().map(|a| (*a, Dial::Luau)))
        .collect();
    let dev_bins: &[&str] = if thorough { CLASS_REPS } else { &["or", "==", "..", "+", "^"] };
    for (dev, dd) in &devs {
        for pos in 0..3 {
            if !thorough && pos == 1 {
                continue;
            }
            let names = match pos {
                0 => [*dev, "b", "c"],
                1 => ["a", *dev, "c"],
                _ => ["a", "b", *dev],
            };
            for s in exprs_depth2(names, false) {
                let ok = s.toks.iter().all(|t| match t {
                    T::Op(o) => dev_bins.contains(&o.as_str()) || UN_REPS.contains(&o.as_str()) || o == "#",
                    _ => true,
                });
                // the deviating atom must actually occur
                let used = s.toks.iter().any(|t| matches!(t, T::Atom(a) if a == dev));
                if ok && used {
                    specs.push((ExprSpec { toks: s.toks, dial: s.dial.max(*dd) }, if thorough { 6 } else { 1 }));
                }
            }
        }
    }
    if thorough {
        for s in exprs_depth3(["a", "b", "c", "d"]) {
            specs.push((s, 6));
        }
        for s in exprs_depth3([L, lb, lc, "dddddddddddddddddddd"]) {
            specs.push((s, 2));
        }
    }
    // depth 1 — a single unary or binary operator, bare and inside one / two pairs of parentheses — in EVERY context of both
    // lists, in both tiers (the Luau contexts `(E) :: T`, `x += E`, if-expressions and interpolated strings included)
    {
        let bins: Vec<&str> = BINOPS_CORE.iter().chain(BINOPS_53.iter()).cloned().collect();
        let uns: Vec<&str> = UNOPS_CORE.iter().chain(UNOPS_53.iter()).cloned().collect();
        let every: Vec<&Ctx> = CTXS_QUICK.iter().chain(CTXS_MORE.iter()).collect();
        let mut d1: Vec<ExprSpec> = vec![];
        for u in &uns {
            for lvl in 0..=2 {
                d1.push(ExprSpec { toks: wrap(vec![op(u), at("a")], lvl), dial: op_dial(u, true) });
                d1.push(ExprSpec { toks: wrap(vec![op(u), at(L)], lvl), dial: op_dial(u, true) });
            }
        }
        for o in &bins {
            for lvl in 0..=2 {
                d1.push(ExprSpec { toks: wrap(vec![at("a"), op(o), at("b")], lvl), dial: op_dial(o, false) });
            }
        }
        for s in &d1 {
            let e = render(&s.toks);
            let f = full_of(&s.toks);
            for c in &every {
                if c.dial == Dial::Luau && s.dial != Dial::Core && s.dial != Dial::Luau {
                    continue;
                }
                let dial = if c.dial == Dial::Luau { Dial::Luau } else { s.dial };
                let mut cs = case("F-EXPR", dial, place(c, &e));
                cs.meta.full = Some(place(c, &f));
                v.push(cs);
            }
        }
    }
    let all_ctxs: Vec<&Ctx> = if thorough { CTXS_QUICK.iter().chain(CTXS_MORE.iter()).collect() } else { CTXS_QUICK.iter().collect() };
    for (s, nctx) in &specs {
        let e = render(&s.toks);
        let f = full_of(&s.toks);
        let n = if *nctx == 0 { all_ctxs.len() } else { (*nctx).min(all_ctxs.len()) };
        for c in all_ctxs.iter().take(n) {
            if c.dial == Dial::Luau && s.dial != Dial::Core && s.dial != Dial::Luau {
                continue; // Luau context with a 5.3-only operator
            }
            let dial = if c.dial == Dial::Luau { Dial::Luau } else { s.dial };
            let mut cs = case("F-EXPR", dial, place(c, &e));
            cs.meta.full = Some(place(c, &f));
            v.push(cs);
        }
    }
    v
}

/// F-TRUNC: multi-value expressions in parentheses in every position where truncation matters or does not
pub fn f_trunc() -> Vec<Case> {
    let mut v = Vec::new();
    let inners = ["f()", "...", "o:m()", "f()()", "f(a)", "t.f()"];
    let ctxs: Vec<&Ctx> = CTXS_QUICK.iter().chain(CTXS_MORE.iter()).collect();
    for i in inners {
        for lvl in 1..=2 {
            let mut e = i.to_string();
            for _ in 0..lvl {
                e = format!("({})", e);
            }
            for c in &ctxs {
                // as written, and with blanks / a line break / a comment inside the parentheses (trivia on the inner tokens)
                let spaced = e.replace('(', "( ").replace(')', " )");
                let forms: Vec<String> = if lvl == 1 { vec![e.clone(), spaced.clone(), spaced.replace("( ", "(\n\t").replace(" )", "\n)"), e.replace(')', " --[[c]])")] } else { vec![e.clone(), spaced] };
                for e in forms {
                    let text = if i == "..." { format!("local function w(...)\n{}end\n", place(c, &e)) } else { place(c, &e) };
                    let mut cs = case("F-TRUNC", c.dial, text);
                    cs.meta.full = None;
                    v.push(cs);
                }
            }
        }
    }
    v
}

// ------------------------------------------------------------------------------------------------------------
// F-TRIVIA: a comment in every token gap
// ------------------------------------------------------------------------------------------------------------

pub const COMMENT_KINDS: usize = 8;

fn comment_text(kind: usize, id: usize) -> (String, bool) {
    // (text, needs_line_break_after)
    match kind {
        0 => (format!("--c{}x", id), true),
        1 => (format!("--[[c{}x]]", id), false),
        2 => (format!("--[=[c{}x]=]", id), false),
        3 => (format!("--[[c{}x\nd]]", id), false),
        4 => (format!("-- c{}x \n", id), true),
        // kinds 5 and 6: the comment sits on a line of its own (so it is LEADING trivia of the next token)
        5 => (format!("\n--c{}x", id), true),
        6 => (format!("\n--[[c{}x]]\n", id), false),
        // kind 7: a block comment at the START of the line on which the next token stands
        7 => (format!("\n--[[c{}x]]", id), false),
        // kind 8: a block comment whose inner lines end in blanks, one of them holding nothing else (the text of a comment is
        // kept byte for byte: only the line terminators may change)
        _ => (format!("--[[c{}x \n \t\nd\t\ne ]]", id), false),
    }
}

/// all single-comment variants of `base` (one comment of each kind in every gap)
pub fn trivia_variants(base: &Case, kinds: &[usize], fam: &'static str) -> Vec<Case> {
    let mut v = Vec::new();
    let l = match lex::lex(&base.text) {
        Ok(l) => l,
        Err(_) => return v,
    };
    let n = l.toks.len();
    for gap in 0..=n {
        // gap g is before token g (g == n: after the last token)
        let (ws_start, ws_end) = gap_span(&l, &base.text, gap);
        for &k in kinds {
            let (c, nl) = comment_text(k, gap);
            let mut s = String::new();
            s.push_str(&base.text[..ws_start]);
            if gap > 0 {
                s.push(' ');
            }
            s.push_str(&c);
            if nl {
                s.push('\n');
            } else {
                s.push(' ');
            }
            // keep line breaks of the original gap after the comment
            let orig = &base.text[ws_start..ws_end];
            if !nl && orig.contains('\n') {
                s.push('\n');
            }
            s.push_str(&base.text[ws_end..]);
            let mut cs = Case { text: s, fam, dial: base.dial, meta: Meta::default() };
            cs.meta.comments = 1;
            v.push(cs);
        }
    }
    v
}

fn gap_span(l: &lex::Lexed, text: &str, gap: usize) -> (usize, usize) {
    let n = l.toks.len();
    let start = if gap == 0 { 0 } else { l.toks[gap - 1].2 };
    let end = if gap == n { text.len() } else { l.toks[gap].1 };
    (start, end)
}

/// two comments: every pair of gaps (g1 <= g2), kinds {line, block}
pub fn trivia_pairs(base: &Case, fam: &'static str) -> Vec<Case> {
    let mut v = Vec::new();
    let l = match lex::lex(&base.text) {
        Ok(l) => l,
        Err(_) => return v,
    };
    let n = l.toks.len();
    for g1 in 0..=n {
        for g2 in g1..=n {
            for k1 in [0usize, 1] {
                for k2 in [0usize, 1] {
                    let mut s = String::new();
                    let mut last = 0;
                    for (idx, (g, k)) in [(g1, k1), (g2, k2)].iter().enumerate() {
                        let (ws, we) = gap_span(&l, &base.text, *g);
                        if idx == 1 && g1 == g2 {
                            // second comment in the same gap: directly after the first
                            let (c, nl) = comment_text(*k, 100 + *g);
                            s.push_str(&c);
                            s.push(if nl { '\n' } else { ' ' });
                            continue;
                        }
                        s.push_str(&base.text[last..ws]);
                        if *g > 0 {
                            s.push(' ');
                        }
                        let (c, nl) = comment_text(*k, if idx == 0 { *g } else { 100 + *g });
                        s.push_str(&c);
                        s.push(if nl { '\n' } else { ' ' });
                        if !nl && base.text[ws..we].contains('\n') && !(idx == 0 && g1 == g2) {
                            s.push('\n');
                        }
                        last = we;
                    }
                    s.push_str(&base.text[last..]);
                    let mut cs = Case { text: s, fam, dial: base.dial, meta: Meta::default() };
                    cs.meta.comments = 2;
                    v.push(cs);
                }
            }
        }
    }
    v
}

// ------------------------------------------------------------------------------------------------------------
// F-SEQ: statement sequences for the block post-processor
// ------------------------------------------------------------------------------------------------------------

pub const SEQ_STMTS: &[(&str, Dial)] = &[
    ("x = f()", Dial::Core),
    ("local   y  =  1", Dial::Core),
    ("f()", Dial::Core),
    ("(f)()", Dial::Core),
    ("(a).b = 1", Dial::Core),
    ("(a).b += 1", Dial::Luau),
    ("repeat until f()", Dial::Core),
    ("do end", Dial::Core),
    ("local function g() end", Dial::Core),
    ("x = a.b", Dial::Core),
    ("local z = t[1]", Dial::Core),
];
pub const SEQ_LAST: &[(&str, Dial)] = &[("return", Dial::Core), ("return f()", Dial::Core), ("break", Dial::Core), ("continue", Dial::Luau)];
pub const SEQ_SEPS: &[&str] = &["\n", ";\n", "; ", " ; -- c\n", " -- c\n", "\n\n", ";", " --[[c]] ", ";\n\n\n"];
pub const SEQ_ENCL: &[(&str, &str, bool)] = &[
    ("", "", false),
    ("do\n", "end\n", false),
    ("local function w()\n", "end\n", false),
    ("if a then\n", "end\n", false),
    ("if a then\nelse\n", "end\n", false),
    ("while a do\n", "end\n", true),
    ("repeat\n", "until a\n", true),
    ("f(function()\n", "end)\n", false),
    ("for i = 1, 2 do\n", "end\n", true),
];

/// all sequences of <= n statements x separators x enclosing blocks; statement spans recorded
pub fn f_seq(n: usize, all_encl: bool) -> Vec<Case> {
    let mut v = Vec::new();
    let encls: Vec<&(&str, &str, bool)> = if all_encl { SEQ_ENCL.iter().collect() } else { SEQ_ENCL.iter().take(3).collect() };
    // a sequence is a list of (stmt index, sep index); the last element may come from SEQ_LAST
    fn rec(
        all_seps: bool,
        depth: usize,
        n: usize,
        cur: &mut Vec<(String, Dial, usize)>,
        out: &mut Vec<Vec<(String, Dial, usize)>>,
    ) {
        if !cur.is_empty() {
            out.push(cur.clone());
        }
        if depth == n {
            return;
        }
        for (s, d) in SEQ_STMTS {
            for sep in 0..SEQ_SEPS.len() {
                if !all_seps && !matches!(sep, 0 | 1 | 3 | 4 | 6) {
                    continue;
                }
                cur.push((s.to_string(), *d, sep));
                rec(all_seps, depth + 1, n, cur, out);
                cur.pop();
            }
        }
    }
    let mut seqs = Vec::new();
    rec(all_encl, 0, n, &mut Vec::new(), &mut seqs);
    for (pre, post, is_loop) in encls {
        for seq in &seqs {
            // plain
            let mut variants: Vec<Vec<(String, Dial, usize)>> = vec![seq.clone()];
            // with each last statement appended (separator variants: newline and ';')
            if seq.len() < n + 1 {
                for (ls, ld) in SEQ_LAST {
                    if (*ls == "break" || *ls == "continue") && !*is_loop {
                        continue;
                    }
                    let last_seps: &[usize] = if all_encl { &[0, 1, 3, 6] } else { &[0, 3] };
                    if !all_encl && (*ls == "return" || *ls == "continue") {
                        continue;
                    }
                    for &sep in last_seps {
                        let mut s2 = seq.clone();
                        s2.push((ls.to_string(), *ld, sep));
                        variants.push(s2);
                    }
                }
            }
            for var in variants {
                let mut text = String::from(*pre);
                let mut dial = Dial::Core;
                let mut ok = true;
                for (i, (s, d, sep)) in var.iter().enumerate() {
                    // a separator without `;` before a statement starting with `(` does not separate anything in
                    // Lua (the two lines are ONE statement); that shape belongs to F-TRIVIA, not to this family
                    if i > 0 && s.starts_with('(') && !SEQ_SEPS[var[i - 1].2].contains(';') {
                        ok = false;
                    }
                    dial = dial.max(*d);
                    text.push_str(s);
                    let sp = SEQ_SEPS[*sep];
                    // a separator without a line break or `;` between two statements is only usable before the end
                    text.push_str(sp);
                    if i + 1 == var.len() && !sp.ends_with('\n') {
                        text.push('\n');
                    }
                    if i + 1 < var.len() && (sp == ";" || sp == " --[[c]] " || sp == "; ") {
                        // next statement follows on the same line: fine for Lua
                    }
                    let _ = &mut ok;
                }
                if !ok {
                    continue;
                }
                text.push_str(post);
                let mut cs = case("F-SEQ", dial, text);
                cs.meta.comments = var.iter().filter(|(_, _, sep)| SEQ_SEPS[*sep].contains("--")).count();
                v.push(cs);
            }
        }
    }
    v
}

// ------------------------------------------------------------------------------------------------------------
// F-STR / F-NUM: literal bodies, enumerated exhaustively up to a length bound
// ------------------------------------------------------------------------------------------------------------

pub const STR_ALPHABET: &[&str] = &["'", "\"", "\\", "n", "0", "1", "9", "x", "u", "{", "}", "z", "a", "q", "\n", " ", "é", "\r\n"];
/// the escape-relevant core used for the longest bodies
pub const STR_CORE: &[&str] = &["'", "\"", "\\", "n", "0", "x", "u", "{", "z", "\n"];

pub const STR_POSITIONS: &[(&str, &str)] = &[
    ("x = ", "\n"),
    ("f ", "\n"),
    ("f(", ")\n"),
    ("t[", "] = 1\n"),
    ("x = { [", "] = 1 }\n"),
    ("o:m(", ")\n"),
    ("o:m ", "\n"),
];

fn bodies(alphabet: &[&str], len: usize, out: &mut Vec<String>) {
    fn rec(alphabet: &[&str], len: usize, cur: &mut String, out: &mut Vec<String>) {
        if len == 0 {
            out.push(cur.clone());
            return;
        }
        for a in alphabet {
            let l = cur.len();
            cur.push_str(a);
            rec(alphabet, len - 1, cur, out);
            cur.truncate(l);
        }
    }
    rec(alphabet, len, &mut String::new(), out);
}

/// all string literal programs: bodies x forms x positions (positions beyond the first only for bodies of length <= pos_len)
pub fn f_str(max_len: usize, core_len: usize, pos_len: usize) -> Vec<Case> {
    let mut bs: Vec<String> = Vec::new();
    for l in 0..=max_len {
        bodies(STR_ALPHABET, l, &mut bs);
    }
    for l in (max_len + 1)..=core_len {
        bodies(STR_CORE, l, &mut bs);
    }
    let mut v = Vec::new();
    for b in &bs {
        let blen = b.chars().count();
        // full_moon tolerates a raw line break inside a quoted string after any escape; that is not Lua. Such bodies
        // stay in the space only up to length 2 (where they document the known finding), longer ones are left out.
        if blen > 2 && !strict_string_body(b) {
            // long-bracket forms of the same body are still valid Lua
            if !b.contains("]]") && !b.ends_with(']') {
                v.push(case("F-STR", Dial::Core, format!("x = [[{}]]\n", b)));
            }
            continue;
        }
        let mut forms: Vec<String> = vec![format!("\"{}\"", b), format!("'{}'", b)];
        if !b.contains('\\') || true {
            if !b.contains("]]") && !b.ends_with(']') {
                forms.push(format!("[[{}]]", b));
            }
            if !b.contains("]=]") && !b.ends_with(']') {
                forms.push(format!("[=[{}]=]", b));
            }
        }
        for f in &forms {
            let npos = if blen <= pos_len { STR_POSITIONS.len() } else { 1 };
            for (pre, post) in STR_POSITIONS.iter().take(npos) {
                let text = format!("{}{}{}", pre, f, post);
                v.push(case("F-STR", Dial::Core, text));
            }
        }
    }
    v
}

/// true if a quoted string with this body contains no raw line break (a line break may only follow a backslash or `\z`)
pub fn strict_string_body(b: &str) -> bool {
    let c: Vec<char> = b.chars().collect();
    let mut i = 0;
    while i < c.len() {
        match c[i] {
            '\\' => {
                if c.get(i + 1) == Some(&'z') {
                    i += 2;
                    while i < c.len() && matches!(c[i], ' ' | '\n' | '\r' | '\t') {
                        i += 1;
                    }
                } else if c.get(i + 1) == Some(&'\r') && c.get(i + 2) == Some(&'\n') {
                    i += 3;
                } else {
                    i += 2;
                }
            }
            '\n' | '\r' => return false,
            _ => i += 1,
        }
    }
    true
}

pub fn f_num() -> Vec<Case> {
    let mut sp: Vec<String> = Vec::new();
    for i in ["0", "1", "10", "007", "123456789012345678901234567890"] {
        for f in ["", ".", ".5", ".50", ".0"] {
            for e in ["", "e3", "E+3", "e-3", "e0"] {
                sp.push(format!("{}{}{}", i, f, e));
            }
        }
    }
    for f in [".5", ".0", ".50", ".5e3", ".5E-3", ".007"] {
        sp.push(f.to_string());
    }
    for h in ["0x1F", "0xff", "0X0", "0xA", "0x00ff", "0xFFFFFFFFFFFFFFFF", "0x7fffffffffffffff", "0xffffffffffffffffff"] {
        sp.push(h.to_string());
    }
    for h in ["0xA.8", "0x.8p1", "0x1F.", "0xf.8p1", "0x1p4", "0X1P-4", "0x.1", "0x1.8p+1", "0xa.bp0", "0x0.8"] {
        sp.push(h.to_string());
    }
    for b in ["0b101", "0B1", "0b1_0", "0b0", "0b_1"] {
        sp.push(b.to_string());
    }
    for u in ["1_000", "1_000.5", "0xFF_FF", "1_.5", "1__0", "1_e3", "0x_ff", "1e1_0"] {
        sp.push(u.to_string());
    }
    for s in ["1LL", "1ULL", "0x1ULL", "1i", "1.5i", ".5i", "0xFFLL", "1ll", "1Ull", "12e3i"] {
        sp.push(s.to_string());
    }
    let ctxs2: &[(&str, &str)] = &[
        ("x = ", "\n"),
        ("x = -", "\n"),
        ("x = ", " ..1\n"),
        ("x = 1 ..", "\n"),
        ("x = t[", "]\n"),
        ("f(", ")\n"),
        ("x = { ", " }\n"),
        ("x = ", " + .5\n"),
        ("return ", "\n"),
    ];
    let mut v = Vec::new();
    for s in &sp {
        for (pre, post) in ctxs2 {
            v.push(case("F-NUM", Dial::Core, format!("{}{}{}", pre, s, post)));
        }
    }
    v
}

// ------------------------------------------------------------------------------------------------------------
// F-IGN: ignore directives before every statement kind, regions, nesting, table fields
// ------------------------------------------------------------------------------------------------------------

pub const IGN_STMTS: &[(&str, Dial, bool)] = &[
    // (text written with odd spacing so that formatting is visible, dialect, is a last statement)
    ("local   x   =  1", Dial::Core, false),
    ("x   =   y", Dial::Core, false),
    ("f(  a,b  )", Dial::Core, false),
    ("(f)(  a  )", Dial::Core, false),
    ("if  a  then  b()  end", Dial::Core, false),
    ("function  f( a )  return a  end", Dial::Core, false),
    ("t  =  { a,b ;c }", Dial::Core, false),
    ("local  t = {\n 1,2\n}", Dial::Core, false),
    ("for  i=1,2  do  end", Dial::Core, false),
    ("while  a  do  end", Dial::Core, false),
    ("repeat  until  a", Dial::Core, false),
    ("do  end", Dial::Core, false),
    ("local  function  g( )  end", Dial::Core, false),
    ("local b   =   require( 'b' )", Dial::Core, false),
    ("x  +=  1", Dial::Luau, false),
    ("type  T  =  { a:number }", Dial::Luau, false),
    ("return   1", Dial::Core, true),
    ("return   a,b", Dial::Core, true),
];
pub const IGN_TAILS: &[&str] = &["", ";", " -- t", "; -- t", " ;"];
/// (a directive counts wherever it stands among the comments in front of the node: other comments may follow or precede it)
pub const IGN_DIRECTIVES: &[&str] = &[
    "-- stylua: ignore",
    "--stylua: ignore",
    "--[[ stylua: ignore ]]",
    "-- stylua: ignore  ",
    "-- stylua: ignore\n-- another comment",
    "-- another comment\n-- stylua: ignore",
    "-- stylua: ignore\n--[[ block ]]",
];

fn defuse(text: &str) -> String {
    text.replace("stylua: ignore", "stylua: ignorX")
}

/// statement lists with one single-statement directive, regions, nesting
pub fn f_ign(thorough: bool) -> Vec<Case> {
    let mut v = Vec::new();
    let encls: &[(&str, &str, &str)] = &[("", "", ""), ("do\n", "end\n", "\t"), ("local function w()\n\tif a then\n", "\tend\nend\n", "\t\t")];
    let neighbours: &[&str] = &["local   p  =  1", "(g)()", "q   =   2;"];
    let stmts: Vec<&(&str, Dial, bool)> = IGN_STMTS.iter().collect();
    for (pre, post, ind) in encls {
        for (si, (st, dial, is_last)) in stmts.iter().enumerate() {
            for tail in IGN_TAILS {
                if tail.contains(';') && st.starts_with("type") {
                    // fine: type declarations may carry a semicolon too
                }
                let dirs: &[&str] = if thorough || si < 4 { IGN_DIRECTIVES } else { &IGN_DIRECTIVES[..1] };
                for dir in dirs {
                    // position of the ignored statement among its neighbours: first, middle, last
                    for pos in 0..3 {
                        if *is_last && pos != 2 {
                            continue;
                        }
                        for crlf in [false, true] {
                            if crlf && !(thorough || (si < 6 && tail.is_empty())) {
                                continue;
                            }
                            let mut text = String::from(*pre);
                            let mut ignored = vec![];
                            let mut others: Vec<String> = vec![];
                            let mut k = 0;
                            for slot in 0..3 {
                                if slot == pos {
                                    text.push_str(ind);
                                    text.push_str(&dir.replace('\n', &format!("\n{}", ind)));
                                    text.push('\n');
                                    text.push_str(ind);
                                    let a = text.len();
                                    text.push_str(st);
                                    // tail: `;` belongs to the statement, a trailing comment too (it is trailing trivia)
                                    text.push_str(tail);
                                    let b = text.len();
                                    ignored.push((a, b));
                                    text.push('\n');
                                } else {
                                    if *is_last && slot > pos {
                                        continue;
                                    }
                                    let mut n = neighbours[k % neighbours.len()];
                                    k += 1;
                                    // a neighbour starting with `(` directly after a statement without `;` would merge with it
                                    if n.starts_with('(') && !(slot == pos + 1 && tail.contains(';')) {
                                        n = "local   r  =  3";
                                    }
                                    if slot == pos + 1 && tail.contains(';') {
                                        n = "(g)()";
                                    }
                                    text.push_str(ind);
                                    text.push_str(n);
                                    text.push('\n');
                                    others.push(n.to_string());
                                }
                            }
                            text.push_str(post);
                            let (text, ignored) = if crlf { to_crlf(&text, &ignored) } else { (text, ignored) };
                            let mut c = case("F-IGN", *dial, text.clone());
                            c.meta.ignored = ignored;
                            c.meta.defused = Some(defuse(&text));
                            c.meta.others = others;
                            c.meta.comments = 1;
                            v.push(c);
                        }
                    }
                }
            }
        }
    }
    // regions: `ignore start` before statement i, `ignore end` before statement j (or never)
    let region_stmts = ["local   x   =  1", "f(  a,b  );", "t  =  { a,b ;c } -- t", "(g)(  1  )", "x   =   y;"];
    let n = region_stmts.len();
    for (pre, post, ind) in encls {
        for i in 0..n {
            for j in (i + 1)..=n + 1 {
                // j == n: `ignore end` after the last statement (before the block end); j == n+1: no end at all
                let mut text = String::from(*pre);
                let mut ignored = vec![];
                let mut others = vec![];
                for (k, s) in region_stmts.iter().enumerate() {
                    if k == i {
                        text.push_str(&format!("{}-- stylua: ignore start\n", ind));
                    }
                    if k == j {
                        text.push_str(&format!("{}-- stylua: ignore end\n", ind));
                    }
                    text.push_str(ind);
                    let a = text.len();
                    text.push_str(s);
                    let b = text.len();
                    text.push('\n');
                    if k >= i && k < j {
                        ignored.push((a, b));
                    } else {
                        others.push(s.to_string());
                    }
                }
                if j == n {
                    text.push_str(&format!("{}-- stylua: ignore end\n", ind));
                }
                text.push_str(post);
                for crlf in [false, true] {
                    let (t2, ig2) = if crlf { to_crlf(&text, &ignored) } else { (text.clone(), ignored.clone()) };
                    let mut c = case("F-IGN", Dial::Core, t2.clone());
                    c.meta.ignored = ig2;
                    c.meta.defused = Some(defuse(&t2));
                    c.meta.others = others.clone();
                    c.meta.comments = 2;
                    v.push(c);
                }
            }
        }
    }
    // a region that ends at a last statement / directive on a last statement
    for (lead, body, ign) in [
        ("-- stylua: ignore start\n", "return   x  ,  y", true),
        ("-- stylua: ignore end\n", "return   x  ,  y", false),
        ("-- stylua: ignore\n", "return   x  ,  y;", true),
    ] {
        for (pre, post, ind) in encls {
            let mut text = String::from(*pre);
            let mut ignored = vec![];
            let mut others = vec![];
            if !ign {
                text.push_str(&format!("{}-- stylua: ignore start\n{}", ind, ind));
                let a = text.len();
                text.push_str("local   p  =  1");
                ignored.push((a, text.len()));
                text.push('\n');
            } else {
                text.push_str(&format!("{}local   p  =  1\n", ind));
                others.push("local   p  =  1".to_string());
            }
            text.push_str(ind);
            text.push_str(lead.trim_end());
            text.push('\n');
            text.push_str(ind);
            let a = text.len();
            text.push_str(body);
            if ign {
                ignored.push((a, text.len()));
            } else {
                others.push(body.to_string());
            }
            text.push('\n');
            text.push_str(post);
            let mut c = case("F-IGN", Dial::Core, text.clone());
            c.meta.ignored = ignored;
            c.meta.defused = Some(defuse(&text));
            c.meta.others = others;
            c.meta.comments = 2;
            v.push(c);
        }
    }
    // ignored table fields
    for dir in IGN_DIRECTIVES {
        for (field, other) in [("a   =  1", "b  = 2"), ("[ 'k' ]  =  f( 1 )", "c=3"), ("{ 1,2 }", "d  =  4"), ("f( a,b )", "e = 5")] {
            for pos in 0..2 {
                let mut text = String::from("local t = {\n");
                let mut ignored = vec![];
                for slot in 0..2 {
                    if slot == pos {
                        text.push_str(&format!("\t{}\n\t", dir));
                        let a = text.len();
                        text.push_str(field);
                        ignored.push((a, text.len()));
                        text.push_str(",\n");
                    } else {
                        text.push_str(&format!("\t{},\n", other));
                    }
                }
                text.push_str("}\n");
                let mut c = case("F-IGN", Dial::Core, text.clone());
                c.meta.ignored = ignored;
                c.meta.defused = Some(defuse(&text));
                c.meta.others = vec![];
                c.meta.comments = 1;
                v.push(c);
            }
        }
    }
    v
}

fn to_crlf(text: &str, spans: &[(usize, usize)]) -> (String, Vec<(usize, usize)>) {
    let mut out = String::new();
    let mut map = vec![0usize; text.len() + 1];
    for (i, ch) in text.char_indices() {
        map[i] = out.len();
        if ch == '\n' {
            out.push('\r');
        }
        out.push(ch);
    }
    map[text.len()] = out.len();
    // positions inside multi-byte characters are never span ends here (ASCII only)
    let spans2 = spans.iter().map(|(a, b)| (map[*a], map[*b])).collect();
    (out, spans2)
}

// ------------------------------------------------------------------------------------------------------------
// F-REQ: top-level require / GetService blocks
// ------------------------------------------------------------------------------------------------------------

#[derive(Clone, Debug, PartialEq)]
pub enum ReqKind {
    Require,
    GetService,
    Other,
}
#[derive(Clone, Debug, PartialEq)]
pub enum Sep {
    None,
    Blank,
    Comment,
}
#[derive(Clone, Debug)]
pub struct ReqItem {
    pub kind: ReqKind,
    pub name: String,
    pub ignored: bool,
    pub sep_before: Sep,
}

/// element alphabet: (text, kind, name, dialect)
pub const REQ_ELEMS: &[(&str, u8, &str, Dial)] = &[
    ("local B = require(\"B\")", 0, "B", Dial::Core),
    ("local a   = require(\"a1\")", 0, "a", Dial::Core),
    ("local a = require(\"a2\")", 0, "a", Dial::Core),
    ("local b   =   require( \"b\" ); -- t", 0, "b", Dial::Core),
    ("local A = require(\"A\") -- t", 0, "A", Dial::Core),
    ("local S = game:GetService(\"S\")", 1, "S", Dial::Core),
    ("local R = game:GetService(\"R\");", 1, "R", Dial::Core),
    ("local c = require(\"c\") :: T", 0, "c", Dial::Luau),
    ("local m = require(\n\t\"m\"\n)", 0, "m", Dial::Core),
    ("local x, y = require(\"x\")", 2, "", Dial::Core),
    ("local n = 1", 2, "", Dial::Core),
    ("f()", 2, "", Dial::Core),
];
/// things that may stand before an element
pub const REQ_PRE: &[&str] = &["", "\n", "-- c\n", "-- stylua: ignore\n", "-- stylua: ignore start\n", "-- stylua: ignore end\n", "--[[ stylua: ignore ]] ", "--[[c]] "];

pub fn f_req(n: usize, thorough: bool) -> Vec<Case> {
    let mut v = Vec::new();
    let elems: Vec<&(&str, u8, &str, Dial)> = if thorough { REQ_ELEMS.iter().collect() } else { REQ_ELEMS.iter().filter(|e| !matches!(e.0, "f()" | "local R = game:GetService(\"R\");")).collect() };
    // sequences of (element, pre) ; `pre` other than "" only at one position at a time in the quick tier (1 deviation),
    // every combination in the thorough tier for n <= 3
    fn rec(elems: &[&(&str, u8, &str, Dial)], n: usize, cur: &mut Vec<usize>, out: &mut Vec<Vec<usize>>) {
        if cur.len() >= 2 {
            out.push(cur.clone());
        }
        if cur.len() == n {
            return;
        }
        for i in 0..elems.len() {
            cur.push(i);
            rec(elems, n, cur, out);
            cur.pop();
        }
    }
    let mut seqs = vec![];
    rec(&elems, n, &mut vec![], &mut seqs);
    for seq in &seqs {
        // at least two require-kind statements, otherwise nothing can move
        if seq.iter().filter(|i| elems[**i].1 != 2).count() < 2 {
            continue;
        }
        let mut pres: Vec<Vec<usize>> = vec![vec![0; seq.len()]];
        for pos in 0..seq.len() {
            for p in 1..REQ_PRE.len() {
                let mut x = vec![0; seq.len()];
                x[pos] = p;
                pres.push(x.clone());
                if thorough && seq.len() <= 3 {
                    for pos2 in (pos + 1)..seq.len() {
                        for p2 in 1..REQ_PRE.len() {
                            let mut y = x.clone();
                            y[pos2] = p2;
                            pres.push(y);
                        }
                    }
                }
            }
        }
        for pre in pres {
            let mut text = String::new();
            let mut items = vec![];
            let mut dial = Dial::Core;
            let mut region = false;
            for (k, ei) in seq.iter().enumerate() {
                let e = elems[*ei];
                dial = dial.max(e.3);
                let p = REQ_PRE[pre[k]];
                text.push_str(p);
                let mut single = false;
                let sep = match p {
                    "" | "--[[ stylua: ignore ]] " | "--[[c]] " => Sep::None,
                    "\n" => Sep::Blank,
                    _ => Sep::Comment,
                };
                match p {
                    "-- stylua: ignore\n" | "--[[ stylua: ignore ]] " => single = true,
                    "-- stylua: ignore start\n" => region = true,
                    "-- stylua: ignore end\n" => region = false,
                    _ => {}
                }
                text.push_str(e.0);
                text.push('\n');
                items.push(ReqItem {
                    kind: match e.1 {
                        0 => ReqKind::Require,
                        1 => ReqKind::GetService,
                        _ => ReqKind::Other,
                    },
                    name: e.2.to_string(),
                    ignored: single || region,
                    sep_before: if k == 0 { Sep::Blank } else { sep },
                });
            }
            let mut c = case("F-REQ", dial, text);
            c.meta.req = items;
            c.meta.comments = 1;
            v.push(c);
        }
    }
    v
}

// ------------------------------------------------------------------------------------------------------------
// F-WS: renderings of one token sequence (line endings, indentation, spacing, end of file)
// ------------------------------------------------------------------------------------------------------------

pub fn ws_variants(base: &Case, thorough: bool) -> Vec<Case> {
    let mut v = Vec::new();
    let t = &base.text;
    let mk = |text: String| Case { text, fam: "F-WS", dial: base.dial, meta: Meta { comments: base.meta.comments, ..Meta::default() } };
    // whole file CRLF
    v.push(mk(t.replace("\r\n", "\n").replace('\n', "\r\n")));
    // mixed: every second line break is CRLF
    let mut mixed = String::new();
    let mut k = 0;
    for ch in t.replace("\r\n", "\n").chars() {
        if ch == '\n' {
            if k % 2 == 0 {
                mixed.push('\r');
            }
            k += 1;
        }
        mixed.push(ch);
    }
    if k >= 2 {
        v.push(mk(mixed));
    }
    // indentation with spaces instead of tabs, and mixed
    if t.contains('\t') {
        v.push(mk(t.replace('\t', "   ")));
        if thorough {
            v.push(mk(t.replace('\t', " \t")));
        }
    }
    // doubled spaces between tokens, and a leading indentation on every line
    // (exact-width decisions measured on the unformatted text show up with this one)
    v.push(mk(t.replace(' ', "   ")));
    if thorough {
        v.push(mk(t.replace(' ', "  ")));
    }
    v.push(mk(t.lines().map(|l| format!("  {}\n", l)).collect::<String>()));
    // end of file variants
    let trimmed = t.trim_end_matches(|c| c == '\n' || c == '\r');
    v.push(mk(trimmed.to_string()));
    v.push(mk(format!("{}\n\n\n", trimmed)));
    v.push(mk(format!("{}\n  \n\t\n", trimmed)));
    v.push(mk(format!("{}\r\n\r\n", trimmed)));
    v.push(mk(format!("{}\n-- last\n\n\n", trimmed)));
    v.push(mk(format!("{} -- last", trimmed)));
    v.push(mk(format!("{}\n--[[ last\nline ]]\n\n", trimmed)));
    v
}

pub fn f_ws_files() -> Vec<Case> {
    // files without any code
    ["", "\n", "\n\n\n", "  \n", "\r\n", "-- c", "-- c\n\n\n", "--[[c\nd]]\n", "#!/bin/lua\n", "\t\n-- c\r\n\r\n"]
        .iter()
        .map(|s| case("F-WS", Dial::Core, *s))
        .collect()
}

// ------------------------------------------------------------------------------------------------------------
// F-CALL: call-shaped and function-shaped programs for the option rules (C11)
// ------------------------------------------------------------------------------------------------------------
pub fn f_call(thorough: bool) -> Vec<Case> {
    let mut v = Vec::new();
    let callees = ["f", "o:m", "g()", "t.k", "ffffffffffffffffffff"];
    let args: &[&str] = &[
        "\"s\"", "'s'", "[[s]]", "{}", "{ 1 }", "{ a = 1 }", "(\"s\")", "({})", "((\"s\"))", "a", "", "\"s\", a", "{}, {}", "'it\\'s'", "\"say \\\"hi\\\"\"",
        "function() end", "...", "\"ssssssssssssssssssssssssssssssssssssssss\"",
        // a single table argument that contains a comment is still a single table argument
        "{ --[[c]] 1 }", "{\n\t-- c\n\ta = 1,\n}", "{ a = 1, --[[c]] }",
    ];
    let nexts = ["", ".k", "[k]", ":m()", "()", ".k.j", ":m\"s\"", "\"t\"", "{}"];
    for c in callees {
        for a in args {
            for n in nexts {
                // written with parentheses, and (for single string / table arguments) in sugar form too
                let mut forms = vec![format!("{}({}){}", c, a, n)];
                if matches!(*a, "\"s\"" | "'s'" | "[[s]]" | "{}" | "{ 1 }" | "{ a = 1 }" | "'it\\'s'" | "{ --[[c]] 1 }") {
                    forms.push(format!("{} {}{}", c, a, n));
                    forms.push(format!("{}{}{}", c, a, n));
                }
                for f in forms {
                    v.push(case("F-CALL", Dial::Core, format!("{}\n", f)));
                    if n != "\"t\"" && n != "{}" {
                        v.push(case("F-CALL", Dial::Core, format!("local x = {}\n", f)));
                    }
                    if thorough {
                        v.push(case("F-CALL", Dial::Core, format!("return {}\n", f)));
                        v.push(case("F-CALL", Dial::Core, format!("h({}, 1)\n", f)));
                        v.push(case("F-CALL", Dial::Core, format!("x = {{ {} }}\n", f)));
                    }
                }
            }
        }
    }
    for s in [
        "function f() end",
        "function f(a, b) return a end",
        "function o.f() end",
        "function o:m(a) end",
        "local function f() end",
        "local f = function() end",
        "local f = function(a) return a end",
        "f(function() end)",
        "function f (a) end",
        "local function f  () end",
        "f (a)",
        "o:m (a)",
        "f  \"s\"",
        "x = f (a) (b)",
        "x = (f) (a)",
        "x = t[1] (a)",
        "x = \"s\" .. 's' .. [[s]]",
        "x = { \"a\", 'b', [\"c\"] = 'd' }",
    ] {
        v.push(case("F-CALL", Dial::Core, format!("{}\n", s)));
    }
    for s in ["function f<T>(a: T) end", "local function f<T>(): T end", "type function f() end", "x = f(`s`)", "x = f`s`"] {
        v.push(case("F-CALL", Dial::Luau, format!("{}\n", s)));
    }
    v
}

// ------------------------------------------------------------------------------------------------------------
// invalid-input space (C07): truncations and single-token splices of valid programs
// ------------------------------------------------------------------------------------------------------------
pub fn token_mutants(base: &Case) -> Vec<Case> {
    let mut v = Vec::new();
    let Ok(l) = lex::lex(&base.text) else { return v };
    let t = &base.text;
    let n = l.toks.len();
    let mk = |s: String| Case { text: s, fam: "F-MUT", dial: base.dial, meta: Meta::default() };
    for i in 0..n {
        let (_, a, b) = &l.toks[i];
        // prefix cut before token i and after token i
        v.push(mk(t[..*a].to_string()));
        v.push(mk(t[..*b].to_string()));
        // deletion
        v.push(mk(format!("{}{}", &t[..*a], &t[*b..])));
        // duplication
        v.push(mk(format!("{}{} {}", &t[..*b], "", &t[*a..])));
        // swap with the next token
        if i + 1 < n {
            let (_, c, d) = &l.toks[i + 1];
            v.push(mk(format!("{}{}{}{}{}", &t[..*a], &t[*c..*d], &t[*b..*c], &t[*a..*b], &t[*d..])));
        }
    }
    v
}

// ------------------------------------------------------------------------------------------------------------
// F-NEST: every catalogue statement inside every enclosing construct; F-ARGS: argument lists; F-TABLE: constructors
// ------------------------------------------------------------------------------------------------------------
pub const ENCLOSURES: &[(&str, &str)] = &[
    ("do\n\t", "\nend\n"),
    ("local function w()\n\t", "\nend\n"),
    ("if a then\n\t", "\nend\n"),
    ("if a then\n\tf()\nelse\n\t", "\nend\n"),
    ("if a then\n\tf()\nelseif b then\n\t", "\nend\n"),
    ("while a do\n\t", "\nend\n"),
    ("repeat\n\t", "\nuntil a\n"),
    ("for i = 1, 2 do\n\t", "\nend\n"),
    ("for k, v in pairs(t) do\n\t", "\nend\n"),
    ("f(function()\n\t", "\nend)\n"),
    ("local t = {\n\tf = function()\n\t\t", "\n\tend,\n}\n"),
    ("do\n\tdo\n\t\t", "\n\tend\nend\n"),
    ("x = function()\n\t", "\nend\n"),
];

pub fn f_nest(every: usize) -> Vec<Case> {
    let mut v = Vec::new();
    let mut k = 0usize;
    for st in f_stmt() {
        if st.text.starts_with("#!") || st.text.starts_with("::") || st.text.starts_with("goto") {
            continue;
        }
        let body = st.text.trim_end_matches('\n');
        for (ei, (pre, post)) in ENCLOSURES.iter().enumerate() {
            k += 1;
            // quick tier: the plain block, the function in a multi-line table field and the callback argument
            if every > 1 && !matches!(ei, 0 | 9 | 10) {
                continue;
            }
            // `type` declarations are only allowed at the top level of a file in Luau: the parser filters them out
            v.push(case("F-NEST", st.dial, format!("{}{}{}", pre, body, post)));
        }
    }
    v
}

pub const ARG_ATOMS: &[&str] = &[
    "a",
    "aaaaaaaaaaaaaaaaaaaa",
    "\"s\"",
    "{ 1 }",
    "{\n\t1,\n}",
    "function() end",
    "function()\n\treturn 1\nend",
    "g(b)",
    "a + b",
    "{ k = v, [1] = 2 }",
    "...",
];

pub fn f_args(max: usize, every: usize) -> Vec<Case> {
    let mut v = Vec::new();
    let mut lists: Vec<Vec<&str>> = vec![vec![]];
    fn rec<'a>(n: usize, cur: &mut Vec<&'a str>, out: &mut Vec<Vec<&'a str>>) {
        if !cur.is_empty() {
            out.push(cur.clone());
        }
        if cur.len() == n {
            return;
        }
        for a in ARG_ATOMS {
            cur.push(a);
            rec(n, cur, out);
            cur.pop();
        }
    }
    rec(max, &mut vec![], &mut lists);
    let forms: &[(&str, &str)] = &[("f(", ")\n"), ("local x = o:m(", ")\n"), ("return f(", ")(c)\n"), ("x = f(", ").k\n"), ("f(a)(", ")\n")];
    let mut k = 0usize;
    for l in &lists {
        let body = l.join(", ");
        for (pre, post) in forms {
            k += 1;
            if k % every != 0 {
                continue;
            }
            let text = format!("{}{}{}", pre, body, post);
            let text = if body.contains("...") { format!("local function w(...)\n{}end\n", text) } else { text };
            v.push(case("F-ARGS", Dial::Core, text));
        }
    }
    v
}

pub const FIELD_ATOMS: &[&str] = &["1", "a", "k = v", "[k] = v", "[ [[k]] ] = v", "[\"k\"] = 'v'", "{ 1 }", "f = function() end", "aaaaaaaaaaaaaaaaaaaa = bbbbbbbbbbbbbbbbbbbb", "g()", "(g())", "..."];

pub fn f_table(max: usize, every: usize) -> Vec<Case> {
    let mut v = Vec::new();
    let mut lists: Vec<Vec<&str>> = vec![];
    fn rec<'a>(n: usize, cur: &mut Vec<&'a str>, out: &mut Vec<Vec<&'a str>>) {
        if !cur.is_empty() {
            out.push(cur.clone());
        }
        if cur.len() == n {
            return;
        }
        for a in FIELD_ATOMS {
            cur.push(a);
            rec(n, cur, out);
            cur.pop();
        }
    }
    rec(max, &mut vec![], &mut lists);
    let mut k = 0usize;
    for l in &lists {
        for sep in [", ", "; ", ","] {
            for trailing in [false, true] {
                for layout in 0..3 {
                    k += 1;
                    if k % every != 0 {
                        continue;
                    }
                    let mut body = l.join(sep);
                    if trailing {
                        body.push_str(sep.trim_end());
                    }
                    let text = match layout {
                        0 => format!("local t = {{ {} }}\n", body),
                        1 => format!("local t = {{{}}}\n", body),
                        _ => format!("local t = {{\n\t{}\n}}\n", body),
                    };
                    let text = if body.contains("...") { format!("local function w(...)\n{}end\n", text) } else { text };
                    v.push(case("F-TABLE", Dial::Core, text));
                }
            }
        }
    }
    v
}

// ------------------------------------------------------------------------------------------------------------
// F-TYPE (Luau): unions / intersections with one special member at a time, long names so that the hanging path is
// reached at ordinary widths, in every type position
// ------------------------------------------------------------------------------------------------------------
pub fn f_type(thorough: bool) -> Vec<Case> {
    let mut v = Vec::new();
    let plain = ["ConnectionHandleType", "DisconnectedSentinel", "FallbackHandlerKind"];
    let specials_union = ["(CallbackTable & { once: boolean })", "((value: number) -> string)", "(AlphaType | BetaType)", "{ field: number }", "OptionalMember?", "(Parenthesised)", "((nested: A) -> (B) -> C)", "typeof(value)", "\"literal\"", "Generic<Inner | Other>", "(A & B)?"];
    let specials_inter = ["(CallbackTable | { once: boolean })", "((value: number) -> string)", "(AlphaType & BetaType)", "{ field: number }", "(OptionalMember?)", "(Parenthesised)", "Generic<Inner & Other>"];
    let ctxs: &[(&str, &str)] = &[
        ("type Listener = ", "\n"),
        ("export type Listener<T> = ", "\n"),
        ("local function f(argument: ", ") end\n"),
        ("local function f(): ", " end\n"),
        ("type Holder = { field: ", " }\n"),
        ("type Holder = { [string]: ", " }\n"),
        ("type Callback = (argument: ", ") -> ()\n"),
        ("type Callback = () -> ", "\n"),
        ("local value: ", " = nil\n"),
        ("type Generic<T = ", "> = T\n"),
        ("local x = y :: ", "\n"),
        ("type Opt = (", ")?\n"),
    ];
    // every parenthesised special also inside a second, redundant pair of parentheses (the inner pair stays necessary)
    let doubled = |list: &[&str]| -> Vec<String> {
        let mut v: Vec<String> = list.iter().map(|x| x.to_string()).collect();
        v.extend(list.iter().filter(|x| x.starts_with('(')).map(|x| format!("({})", x)));
        v
    };
    let su = doubled(&specials_union);
    let si = doubled(&specials_inter);
    for (op, specials) in [("|", &su), ("&", &si)] {
        for pos in 0..3 {
            for sp in specials.iter().map(|x| x.as_str()) {
                let mut members: Vec<&str> = plain.to_vec();
                members[pos] = sp;
                for n in [2usize, 3] {
                    if pos >= n {
                        continue;
                    }
                    let body = members[..n].join(&format!(" {} ", op));
                    for lead in [false, true] {
                        if lead && !thorough && pos != 0 {
                            continue;
                        }
                        let body2 = if lead { format!("{} {}", op, body) } else { body.clone() };
                        for (ci, (pre, post)) in ctxs.iter().enumerate() {
                            // a leading operator is only valid directly after `=` of a type alias (and in a few other places the parser decides)
                            if !thorough && ci >= 6 && pos == 1 {
                                continue;
                            }
                            v.push(case("F-TYPE", Dial::Luau, format!("{}{}{}", pre, body2, post)));
                        }
                    }
                }
            }
        }
    }
    // multi-line written forms (pipe at line start / line end)
    for body in ["\n\t| ConnectionHandleType\n\t| (CallbackTable & Extra)\n\t| nil", "ConnectionHandleType |\n\tDisconnectedSentinel |\n\t((value: number) -> string)"] {
        v.push(case("F-TYPE", Dial::Luau, format!("type Listener = {}\n", body)));
    }
    v
}

// F-ACCESS (Luau): `read` / `write` access modifiers of array types and table-type fields, with element types that stay on
// one line, hang, or are tables themselves, in every type position of F-TYPE
// ------------------------------------------------------------------------------------------------------------
pub fn f_access() -> Vec<Case> {
    let mut v = Vec::new();
    let ctxs: &[(&str, &str)] = &[
        ("type Listener = ", "\n"),
        ("export type Listener<T> = ", "\n"),
        ("local function f(argument: ", ") end\n"),
        ("local function f(): ", " end\n"),
        ("type Holder = { field: ", " }\n"),
        ("type Holder = { [string]: ", " }\n"),
        ("type Callback = (argument: ", ") -> ()\n"),
        ("type Callback = () -> ", "\n"),
        ("local value: ", " = nil\n"),
        ("local x = y :: ", "\n"),
        ("type Opt = (", ")?\n"),
        ("type Union = ConnectionHandleType | ", " | nil\n"),
    ];
    let elems = ["number", "ConnectionHandleType | DisconnectedSentinel | FallbackHandlerKind", "{ number }", "{ field: number }", "(value: number) -> string", "Optional?"];
    for acc in ["read", "write"] {
        for e in elems {
            for (pre, post) in ctxs {
                v.push(case("F-ACCESS", Dial::Luau, format!("{}{{ {} {} }}{}", pre, acc, e, post)));
                v.push(case("F-ACCESS", Dial::Luau, format!("{}{{ {} field: {} }}{}", pre, acc, e, post)));
                v.push(case("F-ACCESS", Dial::Luau, format!("{}{{ {} [string]: {}, write other: number }}{}", pre, acc, e, post)));
            }
        }
        // written over several lines
        v.push(case("F-ACCESS", Dial::Luau, format!("type Listener = {{\n\t{} number\n}}\n", acc)));
        v.push(case("F-ACCESS", Dial::Luau, format!("type Listener = {{ {}\n\tnumber }}\n", acc)));
        v.push(case("F-ACCESS", Dial::Luau, format!("type Listener = {{\n\t{} field: number,\n\t{} other: string,\n}}\n", acc, acc)));
    }
    v
}

// F-BLOCKWS bases, F-DECL, F-GUARDCALL, F-ARGBLANK: small families added after the tenth round of seeded changes
// ------------------------------------------------------------------------------------------------------------
/// generic type packs with a default: `T... = (X)` — the default is a type pack, its parentheses are part of the syntax
pub fn f_packdefault() -> Vec<Case> {
    let mut v = vec![];
    let xs = ["string", "string, number", "", "A | B", "{ number }", "(value: number) -> string", "ConnectionHandleType | DisconnectedSentinel | FallbackHandlerKind | AnotherRatherLongTypeName", "(string)", "Optional?"];
    for x in xs {
        v.push(case("F-PACKDEFAULT", Dial::Luau, format!("type Pack<T... = ({})> = {{}}\n", x)));
        v.push(case("F-PACKDEFAULT", Dial::Luau, format!("export type Pack<K, T... = ({})> = {{ key: K }}\n", x)));
        v.push(case("F-PACKDEFAULT", Dial::Luau, format!("type Pack<T... = ( {} )> = ( T... ) -> ()\n", x)));
    }
    v.push(case("F-PACKDEFAULT", Dial::Luau, "type Pack<T... = ...number> = {}\n"));
    v.push(case("F-PACKDEFAULT", Dial::Luau, "type Pack<T... = U...> = {}\n"));
    v
}

/// plain statements in whose gaps a block comment with inner trailing blanks (kind 8) is placed
pub fn f_blockws() -> Vec<Case> {
    let bases = ["local x = 1\n", "f(a, b)\n", "return a, b\n", "do\n\tf()\nend\n", "local t = { 1, b }\n", "if a then\n\tf()\nend\n", "x.y = z + 1\n"];
    let mut v = vec![];
    for b in bases {
        v.extend(trivia_variants(&case("F-BLOCKWS", Dial::Core, b), &[8], "F-BLOCKWS"));
    }
    v
}

/// `local` declarations WITHOUT an assignment: 1..3 names, every subset of them annotated (a Luau type / a Lua 5.4 attribute),
/// alone, followed by another statement, and as the last line of a file without a line terminator
pub fn f_decl() -> Vec<Case> {
    let mut v = vec![];
    let names = ["count", "name", "rest"];
    for (dial, ann) in [(Dial::Luau, [": number", ": string?", ": { number }"]), (Dial::L54, [" <const>", " <close>", " <const>"])] {
        for n in 1..=3usize {
            for mask in 0..(1u32 << n) {
                let list: Vec<String> = (0..n).map(|i| if mask & (1 << i) != 0 { format!("{}{}", names[i], ann[i]) } else { names[i].to_string() }).collect();
                let decl = format!("local {}", list.join(", "));
                v.push(case("F-DECL", dial, format!("{}\n", decl)));
                v.push(case("F-DECL", dial, decl.clone()));
                v.push(case("F-DECL", dial, format!("{}\nreturn count\n", decl)));
                v.push(case("F-DECL", dial, format!("do\n\t{}\n\tf()\nend\n", decl)));
            }
        }
    }
    v
}

/// guards whose returned / called expression is a call written WITHOUT parentheses around a table or string (the first pass
/// adds the parentheses), the argument holding a function, a table or nothing special
pub fn f_guardcall() -> Vec<Case> {
    let mut v = vec![];
    let args = ["{ function() end }", "{ function() return 1 end }", "{ 1, 2 }", "{}", "\"text\"", "{ key = function(a) return a end }", "{ { function() end } }"];
    for a in args {
        for callee in ["wrap", "obj.wrap", "obj:wrap"] {
            for stmt in ["return", "call"] {
                let body = if stmt == "return" { format!("return {}{}", callee, a) } else { format!("{}{}", callee, a) };
                v.push(case("F-GUARDCALL", Dial::Core, format!("if k then {} end\n", body)));
                v.push(case("F-GUARDCALL", Dial::Core, format!("local function h(k)\n\tif k == \"noop\" then {} end\n\treturn lookup[k]\nend\n", body)));
                v.push(case("F-GUARDCALL", Dial::Core, format!("local f = function() {} end\n", body)));
            }
        }
    }
    v
}

/// calls (and method calls) with an EMPTY line in front of an argument, the first argument on the line of the `(` or not
pub fn f_argblank() -> Vec<Case> {
    let mut v = vec![];
    for callee in ["schedule", "obj.schedule", "obj:schedule", "a.b:c"] {
        for args in ["interval,\n\n\tcallback, options", "interval, callback,\n\n\toptions", "interval,\n\n\tcallback,\n\n\toptions", "\n\tinterval,\n\n\tcallback", "\n\n\tinterval, callback", "interval,\n\n\tfunction() end", "interval,\n\n\t{ 1, 2 }", "{ 1 },\n\n\tcallback"] {
            v.push(case("F-ARGBLANK", Dial::Core, format!("{}({})\n", callee, args)));
            v.push(case("F-ARGBLANK", Dial::Core, format!("local r = {}({})\n", callee, args)));
            v.push(case("F-ARGBLANK", Dial::Core, format!("do\n\t{}({})\nend\n", callee, args)));
        }
    }
    v
}

/// compound statements (with odd spacing in their nested blocks) under a directive, for range exploration; and require
/// groups inside ignore regions that span several groups
pub fn f_ign_compound() -> Vec<Case> {
    let mut v = Vec::new();
    let stmts = [
        "function  f( a )\n\treturn   a  ,  b\nend",
        "do\n\tlocal   q  =  1\n\tg(  1,2  )\nend",
        "while  a  do\n\tx   =   1\nend",
        "if  a  then\n\tx   =   1\nelse\n\ty   =   2\nend",
        "local  t = {\n\tf = function( )\n\t\treturn   1\n\tend,\n}",
        "for  i=1,2  do\n\th(  i  )\nend",
    ];
    for st in stmts {
        for dir in ["-- stylua: ignore", "--[[ stylua: ignore ]]"] {
            for (pre, post) in [("", ""), ("local   p  =  1\n", "q   =   2\n"), ("do\n", "end\n")] {
                let mut text = String::from(pre);
                text.push_str(dir);
                text.push('\n');
                let a = text.len();
                text.push_str(st);
                let b = text.len();
                text.push('\n');
                text.push_str(post);
                let mut c = case("F-IGN", Dial::Core, text.clone());
                c.meta.ignored = vec![(a, b)];
                c.meta.comments = 1;
                v.push(c);
            }
        }
        // region form
        let mut text = String::from("-- stylua: ignore start\n");
        let a = text.len();
        text.push_str(st);
        let b = text.len();
        text.push_str("\n-- stylua: ignore end\nlocal   z  =  3\n");
        let mut c = case("F-IGN", Dial::Core, text);
        c.meta.ignored = vec![(a, b)];
        c.meta.comments = 2;
        v.push(c);
    }
    v
}

/// require groups and ignore regions spanning several groups (sort_requires on)
pub fn f_ign_requires() -> Vec<Case> {
    let mut v = Vec::new();
    let groups: [&[(&str, &str)]; 3] = [
        &[("local c = require(\"c\")", "c"), ("local b   =   require( \"b\" )", "b")],
        &[("local Delta = require(\"Delta\")", "Delta"), ("local Beta = require(\"Beta\")", "Beta")],
        &[("local z = require(\"z\")", "z"), ("local y = require(\"y\")", "y")],
    ];
    // region start before statement (gi, si), region end before statement (gj, sj) or never
    let mut positions = vec![];
    for (gi, g) in groups.iter().enumerate() {
        for si in 0..g.len() {
            positions.push((gi, si));
        }
    }
    for (pi, start) in positions.iter().enumerate() {
        for end in positions.iter().skip(pi + 1).map(Some).chain(std::iter::once(None)) {
            let mut text = String::new();
            let mut ignored = vec![];
            let mut items = vec![];
            let mut inside = false;
            for (gi, g) in groups.iter().enumerate() {
                if gi > 0 {
                    text.push('\n');
                }
                for (si, (st, name)) in g.iter().enumerate() {
                    let mut sep = if si == 0 { Sep::Blank } else { Sep::None };
                    if (gi, si) == *start {
                        text.push_str("-- stylua: ignore start\n");
                        inside = true;
                        sep = Sep::Comment;
                    }
                    if Some(&(gi, si)) == end {
                        text.push_str("-- stylua: ignore end\n");
                        inside = false;
                        sep = Sep::Comment;
                    }
                    let a = text.len();
                    text.push_str(st);
                    if inside {
                        ignored.push((a, text.len()));
                    }
                    text.push('\n');
                    items.push(ReqItem { kind: ReqKind::Require, name: name.to_string(), ignored: inside, sep_before: if gi == 0 && si == 0 { Sep::Blank } else { sep } });
                }
            }
            let mut c = case("F-IGN", Dial::Core, text);
            c.meta.ignored = ignored;
            c.meta.req = items;
            c.meta.comments = 2;
            v.push(c);
        }
    }
    v
}

/// one large require group (the sort implementation may switch algorithm with the size of its input) containing one
/// duplicated NAME: every pair of positions for the duplicate x several base orders x several sizes
pub fn f_req_large(thorough: bool) -> Vec<Case> {
    let mut v = Vec::new();
    let sizes: &[usize] = if thorough { &[21, 22, 24, 33, 50, 64] } else { &[21, 33] };
    for &n in sizes {
        let mut orders: Vec<Vec<usize>> = vec![];
        orders.push((0..n).rev().collect()); // descending
        orders.push((0..n).collect()); // ascending (already sorted)
        orders.push((0..n).map(|i| if i % 2 == 0 { i / 2 } else { n - 1 - i / 2 }).collect()); // interleaved
        orders.push((0..n).map(|i| (i + n / 2) % n).collect()); // rotated
        orders.push((0..n).map(|i| (i * 7) % n).collect::<Vec<_>>()); // stride (a permutation when gcd(7, n) = 1)
        for ord in orders {
            let mut chk = ord.clone();
            chk.sort();
            chk.dedup();
            if chk.len() != n {
                continue;
            }
            let step = if thorough { 1 } else { 2 };
            for i in (0..n).step_by(step) {
                for j in ((i + 1)..n).step_by(step) {
                    let mut text = String::new();
                    let mut items = vec![];
                    for (k, o) in ord.iter().enumerate() {
                        // the statement at position j takes the NAME of the statement at position i; the module strings differ
                        let name = format!("N{:02}", if k == j { ord[i] } else { *o });
                        text.push_str(&format!("local {} = require(\"m{:02}\")\n", name, k));
                        items.push(ReqItem { kind: ReqKind::Require, name, ignored: false, sep_before: if k == 0 { Sep::Blank } else { Sep::None } });
                    }
                    let mut c = case("F-REQ", Dial::Core, text);
                    c.meta.req = items;
                    v.push(c);
                }
            }
        }
    }
    v
}

/// edge arrangements around an ignored statement: a formatted neighbour on the SAME line behind its `;`, and an ignored
/// last statement that is the only statement of its block
pub fn f_ign_edges() -> Vec<Case> {
    let mut v = Vec::new();
    for st in ["local x   =   1", "f(  a  )", "x   =   y", "t  =  { a,b }"] {
        for dir in ["-- stylua: ignore", "--[[ stylua: ignore ]]"] {
            for nb in ["local y   =   2", "g(  1,2  )"] {
                for (pre, post, ind) in [("", "", ""), ("do\n", "end\n", "\t")] {
                    for sep in ["; ", ";", " ; "] {
                        let mut text = String::from(pre);
                        text.push_str(ind);
                        text.push_str(dir);
                        text.push('\n');
                        text.push_str(ind);
                        let a = text.len();
                        text.push_str(st);
                        text.push_str(sep.trim_end());
                        let b = text.len();
                        text.push_str(&sep[sep.trim_end().len()..]);
                        text.push_str(nb);
                        text.push('\n');
                        text.push_str(post);
                        let mut c = case("F-IGN", Dial::Core, text);
                        c.meta.ignored = vec![(a, b)];
                        c.meta.comments = 1;
                        v.push(c);
                    }
                }
            }
        }
    }
    for last in ["return   1 ;  -- upper bound", "return   1 ;", "break ;", "return   a ,  b;"] {
        for dir in ["-- stylua: ignore", "--[[ stylua: ignore ]]"] {
            for (pre, post) in [("if x > 1 then\n", "end\n"), ("while x do\n", "end\n"), ("function f()\n", "end\n"), ("do\n", "end\n")] {
                if last.starts_with("break") && !pre.starts_with("while") {
                    continue;
                }
                for blank in ["", "\n"] {
                    let mut text = String::from(pre);
                    text.push_str(blank);
                    text.push('\t');
                    text.push_str(dir);
                    text.push_str("\n\t");
                    let a = text.len();
                    // the ignored node is the statement with its `;` (a trailing comment is trailing trivia of the `;`)
                    let end = last.find(';').map(|i| i + 1).unwrap_or(last.len());
                    text.push_str(last);
                    let b = a + end;
                    text.push('\n');
                    text.push_str(post);
                    let mut c = case("F-IGN", Dial::Core, text);
                    c.meta.ignored = vec![(a, b)];
                    c.meta.comments = 1;
                    v.push(c);
                }
            }
        }
    }
    v
}

/// an `ignore start` / `ignore end` region followed by a statement (ordinary or last) in a CRLF / space-indented / LF file: the
/// region is verbatim, the statement behind `ignore end` is ordinary formatted text
pub fn f_ign_after_region() -> Vec<Case> {
    let mut v = Vec::new();
    for after in ["return   x  ,  1", "local   y  =  2", "f(  x  )", "break"] {
        for (pre, post, ind) in [("", "", ""), ("function g()\n", "end\n", "   "), ("while a do\n", "end\n", "\t")] {
            if after == "break" && !pre.starts_with("while") {
                continue;
            }
            if after.starts_with("return") && pre.starts_with("while") {
                continue;
            }
            for nl in ["\n", "\r\n"] {
                for eof in [true, false] {
                    let mut text = String::from(pre).replace('\n', nl);
                    text.push_str(&format!("{}-- stylua: ignore start{}", ind, nl));
                    text.push_str(ind);
                    let a = text.len();
                    text.push_str("local   x   =  1");
                    let b = text.len();
                    text.push_str(nl);
                    text.push_str(&format!("{}-- stylua: ignore end{}", ind, nl));
                    text.push_str(ind);
                    text.push_str(after);
                    if eof || !post.is_empty() {
                        text.push_str(nl);
                    }
                    text.push_str(&post.replace('\n', nl));
                    let mut c = case("F-IGN", Dial::Core, text);
                    c.meta.ignored = vec![(a, b)];
                    c.meta.comments = 2;
                    v.push(c);
                }
            }
        }
    }
    v
}
