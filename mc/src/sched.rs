//! E3: stateless model checking of the real binary's threads (C19).
//! The binary (built with `--cfg stylua_verif`) contains a cooperative scheduler: every operation on the two status
//! atomics and every channel send / receive is a scheduling point; at each quiescent state it logs the enabled set and
//! takes the choice given in STYLUA_VERIF_SCHED (choice 0 beyond the given prefix). This harness performs the classic
//! depth-first search over choice sequences with an iteratively increased preemption bound.

use crate::cli::{self, Kind, Run, Tree};
use crate::explore::{Failure, Stats};
use std::collections::BTreeMap;
use std::sync::atomic::{AtomicUsize, Ordering};
use std::sync::Mutex;

#[derive(Clone, Debug)]
struct Decision {
    enabled: Vec<String>,
    choice: usize,
    /// the thread that performed the previous step (None at the start)
    prev: Option<String>,
    line: String,
}

#[derive(Debug)]
struct Exec {
    decisions: Vec<Decision>,
    code: i32,
    files: BTreeMap<String, Vec<u8>>,
    raw_trace: String,
}

struct Scn {
    desc: String,
    tree: Tree,
    argv: Vec<String>,
    want_code: i32,
    want_files: BTreeMap<String, Vec<u8>>,
    /// not part of the schedule search: only of the free-running sweep
    sweep_only: bool,
    /// the reader of stdout is gone: every diff the output thread tries to print fails
    closed_stdout: bool,
}

fn run_once(id: usize, sc: &Scn, prefix: &[usize]) -> Result<Exec, String> {
    let sched: String = prefix.iter().map(|c| c.to_string()).collect::<Vec<_>>().join(",");
    let run = Run {
        argv: sc.argv.clone(),
        env: vec![("STYLUA_VERIF_SCHED".into(), sched), ("STYLUA_VERIF_TRACE".into(), "$ROOT/_trace.jsonl".into()), ("STYLUA_VERIF_FAULTS".into(), "1".into())],
        close_stdout: sc.closed_stdout,
        ..Run::default()
    };
    let o = cli::execute(id, &sc.tree, &run);
    let trace = o.after.get("_trace.jsonl").map(|x| String::from_utf8_lossy(&x.0).to_string()).unwrap_or_default();
    let mut files = BTreeMap::new();
    for (p, v) in &o.after {
        if p.ends_with(".lua") {
            files.insert(p.clone(), v.0.clone());
        }
    }
    cli::cleanup(&o);
    // 96 = the program itself is deadlocked (quiescent, no thread enabled): an observation, judged like any other outcome
    if o.code == 97 || o.code == 98 || o.code >= 1000 {
        return Err(format!("scheduler reported exit {} (97 = stuck, 98 = infeasible choice) for prefix {:?}; trace:\n{}", o.code, prefix, trace));
    }
    let mut decisions = vec![];
    let mut prev: Option<String> = None;
    for l in trace.lines() {
        let Ok(v) = serde_json::from_str::<serde_json::Value>(l) else { return Err(format!("unparseable trace line {:?}", l)) };
        if v.get("d").is_some() {
            let enabled: Vec<String> = v["enabled"].as_array().unwrap().iter().map(|x| x.as_str().unwrap().to_string()).collect();
            let choice = v["choice"].as_u64().unwrap() as usize;
            let chosen = v["chosen"].as_str().unwrap().to_string();
            decisions.push(Decision { enabled, choice, prev: prev.clone(), line: l.to_string() });
            prev = Some(chosen);
        }
    }
    Ok(Exec { decisions, code: o.code, files, raw_trace: trace })
}

fn scenarios(thorough: bool) -> Vec<Scn> {
    let alpha = [Kind::Missing, Kind::Unparseable, Kind::Unformatted, Kind::Formatted, Kind::NotDir, Kind::Crash];
    let mut v = vec![];
    let max = if thorough { 3 } else { 3 };
    // every ORDERED list (argument order matters for the main thread's events) of up to `max` entries
    fn rec(alpha: &[Kind], n: usize, cur: &mut Vec<Kind>, out: &mut Vec<Vec<Kind>>) {
        if !cur.is_empty() {
            out.push(cur.clone());
        }
        if cur.len() == n {
            return;
        }
        for a in alpha {
            cur.push(*a);
            rec(alpha, n, cur, out);
            cur.pop();
        }
    }
    let mut lists = vec![];
    rec(&alpha, max, &mut vec![], &mut lists);
    for ks in lists {
        // only lists in which at least two different threads touch the status are interesting; keep all in the thorough tier
        let touching = ks.iter().filter(|k| !matches!(k, Kind::Formatted)).count();
        if !thorough && (touching < 2 || ks.len() < 2) {
            continue;
        }
        // the not-a-directory kind (a walker error other than "not found") takes the place of the missing path: lists with both
        // only in the thorough tier
        if !thorough && ks.contains(&Kind::NotDir) && (ks.contains(&Kind::Missing) || ks.len() > 2) {
            continue;
        }
        // a file whose formatting crashes (fault hook): its worker dies; lists of two in the quick tier
        if !thorough && ks.contains(&Kind::Crash) && (ks.len() > 2 || ks.contains(&Kind::NotDir)) {
            continue;
        }
        for (check, fmt) in [(true, "Summary"), (false, "Standard"), (true, "Json"), (false, "Json")] {
            for nt in [1usize, 4] {
                if !thorough && !check && nt == 1 {
                    continue;
                }
                // the JSON format reports errors through other code: lists of two entries in the quick tier
                if fmt == "Json" && !thorough && (nt == 1 || ks.len() > 2) {
                    continue;
                }
                let mut tree = Tree::default();
                let mut argv: Vec<String> = vec!["--color".into(), "Never".into(), "--num-threads".into(), nt.to_string()];
                if check {
                    argv.push("--check".into());
                }
                if fmt != "Standard" {
                    argv.push("--output-format".into());
                    argv.push(fmt.into());
                }
                let mut want_files = BTreeMap::new();
                for (i, k) in ks.iter().enumerate() {
                    let p = format!("a{}.lua", i);
                    if *k == Kind::NotDir {
                        // a regular (formatted) file named with a trailing slash
                        let b = Kind::Formatted.bytes(i);
                        tree.add(&p, &b);
                        want_files.insert(p.clone(), b);
                        argv.push(format!("{}/", p));
                        continue;
                    }
                    if *k != Kind::Missing {
                        let b = k.bytes(i);
                        tree.add(&p, &b);
                        let after = if !check && *k == Kind::Unformatted {
                            cli::lib_format(&String::from_utf8_lossy(&b), &crate::cfg::Cfg::default(), 120).unwrap().into_bytes()
                        } else {
                            b
                        };
                        want_files.insert(p.clone(), after);
                    }
                    argv.push(p);
                }
                let any_fail = ks.iter().any(|k| matches!(k, Kind::Missing | Kind::Unparseable | Kind::NotDir | Kind::Crash));
                let any_diff = ks.iter().any(|k| *k == Kind::Unformatted);
                let want_code = if any_fail { 2 } else if check && any_diff { 1 } else { 0 };
                v.push(Scn {
                    desc: format!("C19 entries={} mode={}{} threads={}", ks.iter().map(|k| k.letter()).collect::<String>(), if check { "check" } else { "write" }, if fmt == "Json" { "+json" } else { "" }, nt),
                    tree,
                    argv,
                    want_code,
                    want_files,
                    sweep_only: false,
                    closed_stdout: false,
                });
            }
        }
    }
    // --check with the reader of stdout gone (the read end of the pipe is closed before the program starts, so every write fails):
    // the diff of the unformatted file cannot be printed (an error: status 2), and the error of the other file must not get lost
    // whichever result the output thread sees first. Short files under the controlled scheduler (every order of the results is a
    // schedule); the same lists with a long unparseable file in the free-running sweep (its result tends to arrive after the diff).
    for sweep in [false, true] {
        for ks in [vec![Kind::Unformatted, Kind::Unparseable], vec![Kind::Unparseable, Kind::Unformatted], vec![Kind::Unformatted, Kind::Missing], vec![Kind::Unformatted, Kind::Unformatted, Kind::Unparseable], vec![Kind::Unformatted, Kind::Formatted], vec![Kind::Unformatted, Kind::Crash]] {
            for (nt, fmt) in [(4usize, "Standard"), (1, "Standard"), (4, "Json")] {
                if (sweep || !thorough) && (nt != 4 || fmt != "Standard") {
                    continue;
                }
                if !thorough && !sweep && ks.len() > 2 {
                    continue;
                }
                let mut tree = Tree::default();
                let mut argv: Vec<String> = vec!["--color".into(), "Never".into(), "--num-threads".into(), nt.to_string(), "--check".into()];
                if fmt != "Standard" {
                    argv.push("--output-format".into());
                    argv.push(fmt.into());
                }
                let mut want_files = BTreeMap::new();
                for (i, k) in ks.iter().enumerate() {
                    let p = format!("a{}.lua", i);
                    if *k != Kind::Missing {
                        let b = if *k == Kind::Unparseable && sweep { format!("{}local x = = 1\n", "local y = 1\n".repeat(20000)).into_bytes() } else { k.bytes(i) };
                        tree.add(&p, &b);
                        want_files.insert(p.clone(), b);
                    }
                    argv.push(p);
                }
                v.push(Scn {
                    desc: format!("C19 entries={} mode=check+closed-stdout{} threads={} format={}", ks.iter().map(|k| k.letter()).collect::<String>(), if sweep { "+long" } else { "" }, nt, fmt),
                    tree,
                    argv,
                    want_code: 2,
                    want_files,
                    sweep_only: sweep,
                    closed_stdout: true,
                });
            }
        }
    }
    // one file reachable under two names (a symbolic link) from two directories with different configurations: it is one file,
    // processed once, with the configuration of the name met first — whatever the thread count and the schedule
    let src = "local b = require(\"b\")\nlocal a = require(\"a\")\ndo\nx(  )\nend\n";
    for check in [true, false] {
        for nt in [1usize, 4] {
            let mut tree = Tree::default();
            tree.add("one/m.lua", src.as_bytes());
            tree.add("one/stylua.toml", b"[sort_requires]\nenabled = true\n");
            tree.add("two/stylua.toml", b"indent_type = \"Spaces\"\nindent_width = 3\n");
            tree.link("two/m.lua", "../one/m.lua");
            let mut argv: Vec<String> = vec!["--color".into(), "Never".into(), "--num-threads".into(), nt.to_string()];
            if check {
                argv.extend(["--check".into(), "--output-format".into(), "Summary".into()]);
            }
            argv.extend(["one".into(), "two".into()]);
            let formatted = cli::lib_format(src, &crate::cfg::Cfg { sort: true, ..Default::default() }, 120).unwrap().into_bytes();
            let content = if check { src.as_bytes().to_vec() } else { formatted };
            let mut want_files = BTreeMap::new();
            want_files.insert("one/m.lua".to_string(), content.clone());
            want_files.insert("two/m.lua".to_string(), content);
            v.push(Scn { desc: format!("C19 one-file-two-names mode={} threads={}", if check { "check" } else { "write" }, nt), tree, argv, want_code: if check { 1 } else { 0 }, want_files, sweep_only: false, closed_stdout: false });
        }
    }
    // many same-stem pairs x.lua / x.luau in one directory (anything two jobs might share by name); far too many jobs for the
    // schedule search, so this one only takes part in the free-running sweep
    if cfg!(feature = "allsyn") {
        let pairs = if thorough { 200 } else { 60 };
        let mut tree = Tree::default();
        let mut want_files = BTreeMap::new();
        for i in 0..pairs {
            for ext in ["lua", "luau"] {
                let text = format!("local   v{}  =  {{ {} }}\n", i, if ext == "lua" { "1,2" } else { "3,4,5" });
                let p = format!("m{}.{}", i, ext);
                tree.add(&p, text.as_bytes());
                want_files.insert(p, cli::lib_format(&text, &Default::default(), 120).unwrap().into_bytes());
            }
        }
        v.push(Scn { desc: format!("C19 same-stem-pairs={} mode=write", pairs), tree, argv: vec!["--color".into(), "Never".into(), "--num-threads".into(), "4".into(), ".".into()], want_code: 0, want_files, sweep_only: true, closed_stdout: false });
    }
    // many files (more than any queue bound a pool could have) and the two smallest thread counts among the 16: every file is
    // processed and the run ends, whatever the number of workers. Free-running sweep only (400 jobs are beyond a schedule search).
    for check in [true, false] {
        let mut tree = Tree::default();
        let mut want_files = BTreeMap::new();
        for i in 0..400 {
            let p = format!("m/f{:03}.lua", i);
            tree.add(&p, format!("local   x{}  =  {{ 1,2 ,3 }}\n", i).as_bytes());
            want_files.insert(p, if check { format!("local   x{}  =  {{ 1,2 ,3 }}\n", i).into_bytes() } else { format!("local x{} = {{ 1, 2, 3 }}\n", i).into_bytes() });
        }
        tree.add("m/zz-broken.lua", b"local x = = 1\n");
        want_files.insert("m/zz-broken.lua".into(), b"local x = = 1\n".to_vec());
        let mut argv: Vec<String> = vec!["--color".into(), "Never".into(), "--num-threads".into(), "4".into()];
        if check {
            argv.extend(["--check".to_string(), "--output-format".to_string(), "Summary".to_string()]);
        }
        argv.push("m".into());
        v.push(Scn { desc: format!("C19 many-files=401 mode={}", if check { "check" } else { "write" }), tree, argv, want_code: 2, want_files, sweep_only: true, closed_stdout: false });
    }
    v
}

/// Per-thread resources must not depend on the thread count either: the deepest nesting that a run with two threads survives is
/// found by doubling (on the unchanged tree the parser's recursion overflows a worker's stack somewhere between 100 and 200
/// nested tables — a crash that C07 knows about and that is the same for every thread count); HALF of the last surviving
/// depth must then format, with the same bytes, under every thread count. Differential: no expected value is written down.
fn stack_ladder(fails: &mut Vec<Failure>) -> usize {
    let tree_for = |d: usize| {
        let mut t = Tree::default();
        t.add("deep.lua", format!("local t = {}{}\n", "{".repeat(d), "}".repeat(d)).as_bytes());
        t.add("other.lua", b"local   y  =  2\n");
        t
    };
    let run = |id: usize, d: usize, nt: usize| {
        let o = cli::execute(700000 + id, &tree_for(d), &Run { argv: vec!["--color".into(), "Never".into(), "--num-threads".into(), nt.to_string(), "deep.lua".into(), "other.lua".into()], limit_s: 60, ..Run::default() });
        let files: BTreeMap<String, Vec<u8>> = o.after.iter().filter(|(p, _)| p.ends_with(".lua")).map(|(p, v)| (p.clone(), v.0.clone())).collect();
        cli::cleanup(&o);
        (o.code, files)
    };
    let mut runs = 0;
    let mut last_ok = None;
    let mut d = 16;
    while d <= 65536 {
        runs += 1;
        if run(runs, d, 2).0 != 0 {
            break;
        }
        last_ok = Some(d);
        d *= 2;
    }
    let Some(l) = last_ok else { return runs };
    let probe = (l / 2).max(8);
    runs += 1;
    let reference = run(runs, probe, 2);
    for nt in [1usize, 3, 4, 8, 16, 32, 64] {
        runs += 1;
        let got = run(runs, probe, nt);
        if got != reference {
            fails.push(cli::fail(
                "E3-C19",
                "thread-count-dependent-result",
                "C19 nesting-depth ladder",
                format!("{} nested tables (half of the deepest nesting that --num-threads 2 survives): exit status {} with --num-threads {}, {} with --num-threads 2; files equal: {}", probe, got.0, nt, reference.0, got.1 == reference.1),
            ));
        }
    }
    runs
}

struct Explored {
    executions: usize,
    by_bound: Vec<usize>,
    distinct_codes: std::collections::BTreeSet<i32>,
    max_decisions: usize,
    capped: bool,
    failures: Vec<(String, String)>,
    sample: String,
}

fn explore_scenario(base_id: usize, sc: &Scn, bounds: &[usize], cap: usize) -> Explored {
    let mut ex = Explored { executions: 0, by_bound: vec![], distinct_codes: Default::default(), max_decisions: 0, capped: false, failures: vec![], sample: String::new() };
    let mut seen: std::collections::HashSet<Vec<usize>> = Default::default();
    for &bound in bounds {
        let mut count_this = 0usize;
        // DFS stack of prefixes
        let mut stack: Vec<Vec<usize>> = vec![vec![]];
        let mut local_seen: std::collections::HashSet<Vec<usize>> = Default::default();
        while let Some(prefix) = stack.pop() {
            if ex.executions >= cap {
                ex.capped = true;
                break;
            }
            let r = match run_once(base_id, sc, &prefix) {
                Ok(r) => r,
                Err(e) => {
                    ex.failures.push(("machinery".into(), e));
                    return ex;
                }
            };
            let full: Vec<usize> = r.decisions.iter().map(|d| d.choice).collect();
            if full.len() < prefix.len() || full[..prefix.len()] != prefix[..] {
                ex.failures.push(("machinery".into(), format!("replay of prefix {:?} diverged: {:?}", prefix, full)));
                return ex;
            }
            let is_new = seen.insert(full.clone());
            if is_new {
                ex.executions += 1;
                count_this += 1;
                ex.distinct_codes.insert(r.code);
                ex.max_decisions = ex.max_decisions.max(full.len());
                if ex.sample.is_empty() {
                    ex.sample = format!("{} schedule {:?}: {}", sc.desc, full, r.decisions.iter().map(|d| d.line.clone()).collect::<Vec<_>>().join(" "));
                }
                // oracle: exit status and file contents equal the sequential reference in EVERY schedule
                let mut bad = vec![];
                if r.code != sc.want_code {
                    bad.push(format!("exit status {} (sequential reference: {})", r.code, sc.want_code));
                }
                if r.files != sc.want_files {
                    bad.push("file contents differ from the sequential reference".to_string());
                }
                if !bad.is_empty() {
                    // replay twice: the same schedule must fail identically before it is reported
                    let again = run_once(base_id, sc, &full);
                    let same = matches!(&again, Ok(a) if a.code == r.code && a.raw_trace == r.raw_trace);
                    if !same {
                        ex.failures.push(("machinery".into(), format!("schedule {:?} did not replay identically", full)));
                        return ex;
                    }
                    ex.failures.push((
                        "schedule-dependent-result".into(),
                        format!("{} in schedule {:?} ({} preemptions allowed):\n{}", bad.join("; "), full, bound, r.raw_trace),
                    ));
                    return ex; // first counterexample found at the lowest bound is the easiest to read
                }
            }
            if !local_seen.insert(full.clone()) {
                continue;
            }
            // children: deviate at every position at or after the prefix
            let mut preempt_before = vec![0usize; r.decisions.len() + 1];
            for (i, d) in r.decisions.iter().enumerate() {
                let cost = if d.choice != 0 && d.prev.as_ref().map_or(false, |p| d.enabled.first() == Some(p)) { 1 } else { 0 };
                preempt_before[i + 1] = preempt_before[i] + cost;
            }
            for i in prefix.len()..r.decisions.len() {
                let d = &r.decisions[i];
                for alt in 1..d.enabled.len() {
                    if alt == d.choice {
                        continue;
                    }
                    let cost = if d.prev.as_ref().map_or(false, |p| d.enabled.first() == Some(p)) { 1 } else { 0 };
                    if preempt_before[i] + cost > bound {
                        continue;
                    }
                    let mut child = full[..i].to_vec();
                    child.push(alt);
                    stack.push(child);
                }
            }
        }
        ex.by_bound.push(count_this);
        if ex.capped {
            break;
        }
    }
    ex
}

/// replay one recorded schedule of one scenario and print its trace
pub fn replay(desc: &str, detail: &str) -> i32 {
    let scs = scenarios(true);
    let Some(sc) = scs.iter().find(|s| s.desc == desc) else {
        println!("no such scenario: {}", desc);
        return 3;
    };
    let sched: Vec<usize> = detail
        .split("in schedule [")
        .nth(1)
        .and_then(|x| x.split(']').next())
        .map(|x| x.split(',').filter_map(|n| n.trim().parse().ok()).collect())
        .unwrap_or_default();
    println!("scenario: {}\nargv: {:?}\nschedule (choice index per decision): {:?}\nsequential reference: exit status {}", sc.desc, sc.argv, sched, sc.want_code);
    for round in 0..2 {
        match run_once(900000 + round, sc, &sched) {
            Ok(r) => println!("run {}: exit status {}\n{}", round + 1, r.code, r.raw_trace),
            Err(e) => println!("run {}: machinery error: {}", round + 1, e),
        }
    }
    0
}

pub fn c19(thorough: bool, stats: &mut Stats) -> Vec<Failure> {
    let mut scs = scenarios(thorough);
    if let Ok(f) = std::env::var("MC_E3_ONLY") {
        scs.retain(|s| s.desc.contains(&f));
    }
    let bounds: Vec<usize> = if thorough { vec![0, 1, 2, 3, 99] } else { vec![0, 1, 2] };
    let cap = if thorough { 20000 } else { 600 };
    let next = AtomicUsize::new(0);
    let results: Mutex<Vec<(usize, Explored)>> = Mutex::new(vec![]);
    let threads = std::thread::available_parallelism().map(|n| n.get()).unwrap_or(8);
    std::thread::scope(|s| {
        for _ in 0..threads {
            s.spawn(|| loop {
                let i = next.fetch_add(1, Ordering::Relaxed);
                if i >= scs.len() {
                    break;
                }
                if scs[i].sweep_only {
                    continue;
                }
                let e = explore_scenario(100000 + i, &scs[i], &bounds, cap);
                results.lock().unwrap().push((i, e));
            });
        }
    });
    let _ = std::fs::remove_dir_all(cli::scratch_root());
    let mut fails = vec![];
    let mut total = 0;
    let mut per_bound = vec![0usize; bounds.len()];
    let mut two_status = 0;
    let mut capped = 0;
    let mut maxd = 0;
    let mut results = results.into_inner().unwrap();
    results.sort_by_key(|x| x.0);
    for (i, e) in &results {
        total += e.executions;
        for (k, c) in e.by_bound.iter().enumerate() {
            per_bound[k] += c;
        }
        if e.distinct_codes.len() > 1 {
            two_status += 1;
        }
        if e.capped {
            capped += 1;
        }
        maxd = maxd.max(e.max_decisions);
        for (class, detail) in &e.failures {
            fails.push(cli::fail("E3-C19", class, &scs[*i].desc, detail.clone()));
        }
        if stats.samples.len() < 4 && !e.sample.is_empty() && i % 7 == 0 {
            stats.samples.push(e.sample.chars().take(700).collect());
        }
    }
    stats.cases += scs.len();
    stats.tasks += scs.len();
    stats.transitions += total;
    stats.nontrivial = total;
    stats.distinct_outputs = total;
    stats.fam.insert("E3-C19", (scs.len(), total));
    stats.machinery.insert(format!("schedules explored per preemption bound {:?}: {:?}", bounds, per_bound), 1);
    stats.machinery.insert("scenarios with more than one distinct exit status over their schedules".into(), two_status);
    stats.machinery.insert("longest schedule (decisions)".into(), maxd);
    if capped > 0 {
        stats.machinery.insert(format!("wall-clock cap: {} scenarios stopped at the per-scenario cap of {} schedules", capped, cap), capped);
    }
    // a free-running sweep over --num-threads 1..=16 (labelled as a sweep, NOT as exhaustive: the OS schedules)
    let reps = if thorough { 10 } else { 2 };
    let sweep_next = AtomicUsize::new(0);
    let sweep_fails: Mutex<Vec<Failure>> = Mutex::new(vec![]);
    let sweep_runs = AtomicUsize::new(0);
    let jobs: Vec<(usize, usize, usize)> = (0..scs.len())
        .filter(|i| thorough || i % 4 == 0 || scs[*i].sweep_only || scs[*i].desc.contains("one-file-two-names"))
        .flat_map(|i| {
            let r = if scs[i].sweep_only { reps * 3 } else { reps };
            (1..=16usize).flat_map(move |nt| (0..r).map(move |r| (i, nt, r)))
        })
        .collect();
    std::thread::scope(|s| {
        for _ in 0..threads {
            s.spawn(|| loop {
                let k = sweep_next.fetch_add(1, Ordering::Relaxed);
                if k >= jobs.len() {
                    break;
                }
                let (i, nt, _r) = jobs[k];
                let sc = &scs[i];
                let mut argv = sc.argv.clone();
                if let Some(p) = argv.iter().position(|a| a == "--num-threads") {
                    argv[p + 1] = nt.to_string();
                }
                let limit_s = if sc.desc.contains("many-files") { 30 } else { 0 };
                let o = cli::execute(500000 + k, &sc.tree, &Run { argv, env: vec![("STYLUA_VERIF_FAULTS".into(), "1".into())], close_stdout: sc.closed_stdout, limit_s, ..Run::default() });
                let mut files = BTreeMap::new();
                for (p, v) in &o.after {
                    if p.ends_with(".lua") || p.ends_with(".luau") {
                        files.insert(p.clone(), v.0.clone());
                    }
                }
                cli::cleanup(&o);
                sweep_runs.fetch_add(1, Ordering::Relaxed);
                if o.code != sc.want_code || files != sc.want_files {
                    sweep_fails.lock().unwrap().push(cli::fail(
                        "E3-C19",
                        "thread-count-dependent-result",
                        &sc.desc,
                        format!("free-running with --num-threads {}: exit status {} (reference {}), files equal: {}", nt, o.code, sc.want_code, files == sc.want_files),
                    ));
                }
            });
        }
    });
    let mut ladder_fails = vec![];
    let ladder_runs = stack_ladder(&mut ladder_fails);
    stats.machinery.insert("nesting-depth ladder (doubling under --num-threads 2, then half the last surviving depth under 1, 3, 4, 8, 16, 32, 64 threads): runs".into(), ladder_runs);
    let _ = std::fs::remove_dir_all(cli::scratch_root());
    let nsweep = sweep_runs.load(Ordering::Relaxed) + ladder_runs;
    stats.transitions += nsweep;
    stats.machinery.insert(format!("free-running sweep (not exhaustive): --num-threads 1..=16 x {} repetitions", reps), nsweep);
    fails.extend(sweep_fails.into_inner().unwrap());
    fails.extend(ladder_fails);
    fails
}
